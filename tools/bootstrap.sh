#!/bin/sh
# Create /verif/.venv (overlay of /venv + crosshair-tool from the offline wheelhouse).
# Idempotent; guarded by flock so that parallel checks do not race.
set -e
VERIF="$(cd "$(dirname "$0")/.." && pwd)"
VENV="$VERIF/.venv"
LOCK="$VERIF/.venv.lock"
exec 9>"$LOCK"
flock 9
if [ -x "$VENV/bin/python" ] && "$VENV/bin/python" -c "import crosshair, z3, google.protobuf, intervaltree, sortedcontainers, networkx" 2>/dev/null; then
    exit 0
fi
rm -rf "$VENV"
/venv/bin/python -m venv "$VENV"
SP="$("$VENV/bin/python" -c 'import sysconfig; print(sysconfig.get_paths()["purelib"])')"
echo "import site; site.addsitedir('/venv/lib/python3.12/site-packages')" > "$SP/zz_venv_overlay.pth"
PIP_NO_INDEX=1 "$VENV/bin/pip" install --quiet --no-index --find-links /opt/veriftools/wheels crosshair-tool >/dev/null
"$VENV/bin/python" -c "import crosshair, z3, google.protobuf, intervaltree, sortedcontainers, networkx; print('bootstrap ok: crosshair', crosshair.__version__ if hasattr(crosshair,'__version__') else '', 'z3', z3.get_version_string())"
