"""Harness-side adjustments of the CrossHair engine and environment stubs (DESIGN 3.3 / 3.4).

Import this module *before* gtirb.  Every adjustment can be switched off with
VERIF_CH_NOPATCH=E2,E3,... (for auditing its effect); the set that is active is
exported as ACTIVE and goes into the evidence of every run.

When VERIF_CONCRETE=1 (replay mode) nothing is patched at all: the real
intervaltree, io.BytesIO, struct and CrossHair-free interpreter are used.
"""
import io
import os
import struct
import sys

CONCRETE = os.environ.get("VERIF_CONCRETE") == "1"
_OFF = set(filter(None, os.environ.get("VERIF_CH_NOPATCH", "").split(",")))
ACTIVE = []


def _on(tag):
    if CONCRETE or tag in _OFF:
        return False
    ACTIVE.append(tag)
    return True


# ---------------------------------------------------------------------------
# Stub: intervaltree.IntervalTree -> linear-scan ModelTree (comparisons only)
# ---------------------------------------------------------------------------
class ModelTree:
    """Contract of intervaltree 3.x used by gtirb: a set of Interval(begin, end, data)
    triples; null intervals rejected; overlap(b, e) = {iv | iv.begin < e and iv.end > b},
    empty when b >= e; begin()/end()/span(); len()."""

    def __init__(self, intervals=None):
        self._ivs = []
        if intervals is not None:
            for iv in intervals:
                self.add(iv)

    def _find(self, iv):
        for i, o in enumerate(self._ivs):
            if o.data is iv.data and o.begin == iv.begin and o.end == iv.end:
                return i
        return -1

    def add(self, iv):
        if iv.begin >= iv.end:
            raise ValueError("IntervalTree: Null Interval objects not allowed in IntervalTree")
        if self._find(iv) < 0:
            self._ivs.append(iv)

    def discard(self, iv):
        i = self._find(iv)
        if i >= 0:
            del self._ivs[i]

    def overlap(self, begin, end=None):
        if end is None:
            begin, end = begin.begin, begin.end
        if begin >= end:
            return []
        return [iv for iv in self._ivs if iv.begin < end and iv.end > begin]

    def __len__(self):
        return len(self._ivs)

    def __iter__(self):
        return iter(list(self._ivs))

    # -- the rest of the set-like / query API of intervaltree 3.x (same contract, linear scan) --
    append = add

    def addi(self, begin, end, data=None):
        from intervaltree import Interval

        self.add(Interval(begin, end, data))

    appendi = addi

    def update(self, intervals):
        for iv in intervals:
            self.add(iv)

    def remove(self, iv):
        i = self._find(iv)
        if i < 0:
            raise ValueError
        del self._ivs[i]

    def removei(self, begin, end, data=None):
        from intervaltree import Interval

        self.remove(Interval(begin, end, data))

    def discardi(self, begin, end, data=None):
        from intervaltree import Interval

        self.discard(Interval(begin, end, data))

    def difference_update(self, other):
        for iv in list(other):
            self.discard(iv)

    def difference(self, other):
        t = ModelTree(self._ivs)
        t.difference_update(other)
        return t

    def union(self, other):
        t = ModelTree(self._ivs)
        t.update(other)
        return t

    def intersection_update(self, other):
        keep = ModelTree(other)
        self._ivs = [iv for iv in self._ivs if keep._find(iv) >= 0]

    def __contains__(self, iv):
        return self._find(iv) >= 0

    def clear(self):
        self._ivs = []

    def copy(self):
        return ModelTree(self._ivs)

    def is_empty(self):
        return len(self._ivs) == 0

    def __bool__(self):
        return len(self._ivs) != 0

    def items(self):
        return list(self._ivs)

    def at(self, p):
        return [iv for iv in self._ivs if iv.begin <= p < iv.end]

    def envelop(self, begin, end=None):
        if end is None:
            begin, end = begin.begin, begin.end
        if begin >= end:
            return []
        return [iv for iv in self._ivs if iv.begin >= begin and iv.end <= end]

    def overlaps(self, begin, end=None):
        if end is None:
            return len(self.at(begin)) != 0
        return len(self.overlap(begin, end)) != 0

    def __getitem__(self, index):
        if isinstance(index, slice):
            return self.overlap(index.start, index.stop)
        return self.at(index)

    def remove_overlap(self, begin, end=None):
        for iv in (self.at(begin) if end is None else self.overlap(begin, end)):
            self.discard(iv)

    def remove_envelop(self, begin, end):
        for iv in self.envelop(begin, end):
            self.discard(iv)

    def begin(self):
        if not self._ivs:
            return 0
        m = self._ivs[0].begin
        for iv in self._ivs[1:]:
            if iv.begin < m:
                m = iv.begin
        return m

    def end(self):
        if not self._ivs:
            return 0
        m = self._ivs[0].end
        for iv in self._ivs[1:]:
            if iv.end > m:
                m = iv.end
        return m

    def span(self):
        if not self._ivs:
            return 0
        return self.end() - self.begin()


if _on("ModelTree"):
    import intervaltree
    import intervaltree.intervaltree as _it_mod

    intervaltree.IntervalTree = ModelTree
    _it_mod.IntervalTree = ModelTree


# ---------------------------------------------------------------------------
# Pure-Python BytesIO model (E3)
# ---------------------------------------------------------------------------
class ModelBytesIO:
    """Append-only write / sequential read subset of io.BytesIO (gtirb never seeks)."""

    def __init__(self, initial=b""):
        self._buf = initial
        self._chunks = []
        self._pos = 0

    def _flat(self):
        if self._chunks:
            b = self._buf
            for c in self._chunks:
                b = b + c
            self._buf = b
            self._chunks = []
        return self._buf

    def write(self, b):
        self._chunks.append(b)
        return len(b)

    def getvalue(self):
        return self._flat()

    def read(self, n=-1):
        buf = self._flat()
        if n is None or n < 0:
            out = buf[self._pos:]
        else:
            out = buf[self._pos:self._pos + n]
        self._pos += len(out)
        return out

    def tell(self):
        return self._pos

    def seek(self, pos, whence=0):
        if whence != 0:
            raise ValueError("ModelBytesIO: only absolute seek modelled")
        self._pos = pos
        return pos


def make_stream(initial=b""):
    """Stream factory for harnesses: the model under CrossHair, the real BytesIO in replay."""
    if CONCRETE or "E3" in _OFF:
        return io.BytesIO(bytes(initial))
    return ModelBytesIO(initial)


if not CONCRETE:
    import z3
    from crosshair import core as _core
    import crosshair.core_and_libs  # noqa: F401  (registers all library patches)
    from crosshair.core import realize, register_patch, deep_realize, CrossHairValue
    from crosshair.libimpl import builtinslib as _bl
    from crosshair.statespace import context_statespace
    from crosshair.tracers import NoTracing, ResumedTracing
    from crosshair.util import is_hashable

    # -- E3 -------------------------------------------------------------
    if _on("E3"):
        def _mk_bytesio(initial=b""):
            return ModelBytesIO(initial)

        register_patch(io.BytesIO, _mk_bytesio)

    # -- E4: bool() of symbolic bytes ------------------------------------
    if _on("E4"):
        def _bytes_bool(self):
            return len(self) != 0

        for _cls in (_bl.SymbolicBytes, _bl.SymbolicByteArray):
            if "__bool__" not in _cls.__dict__:
                _cls.__bool__ = _bytes_bool

    # -- E5: never short-circuit a call by inventing its return value ----
    if _on("E5"):
        _orig_consider = _core.consider_shortcircuit

        def _no_shortcircuit(fn, sig, bound, subconditions, allow_interpretation):
            if not allow_interpretation:
                return _orig_consider(fn, sig, bound, subconditions, allow_interpretation)
            return None

        _core.consider_shortcircuit = _no_shortcircuit

    # -- E8: `if range(a, b):` must give a real bool -----------------------
    if _on("E8"):
        def _range_bool(self):
            n = self.__len__() > 0
            return n.__bool__() if hasattr(n, "__ch_realize__") else bool(n)

        _bl.SymbolicRange.__bool__ = _range_bool

    # -- E2: int.to_bytes with definitional byte variables ---------------
    if _on("E2"):
        _MISSING = _bl._MISSING

        def _to_bytes(self, length=_MISSING, byteorder=_MISSING, *, signed=False):
            if length is _MISSING:
                length = 1
            if byteorder is _MISSING:
                byteorder = "big"
            if not isinstance(length, int):
                raise TypeError
            if not isinstance(byteorder, str):
                raise TypeError
            if not isinstance(signed, bool):
                raise TypeError
            length = realize(length)
            signed = realize(signed)
            if length < 0:
                raise ValueError("length argument must be non-negative")
            if signed:
                half = (256 ** length) >> 1
                if self < -half or self >= half:
                    raise OverflowError("int too big to convert")
                neg = self < 0
                val = self + 256 ** length if neg else self
            else:
                if self < 0:
                    raise OverflowError("can't convert negative int to unsigned")
                if self >= 256 ** length:
                    raise OverflowError("int too big to convert")
                val = self
            bo = realize(byteorder)
            if bo not in ("big", "little"):
                raise ValueError("byteorder must be either 'little' or 'big'")
            with NoTracing():
                if not isinstance(val, _bl.SymbolicInt):
                    return int(val).to_bytes(length, bo)
                space = context_statespace()
                bs = [z3.Int("tb%d_%s" % (i, space.uniq())) for i in range(length)]
                for b in bs:
                    space.add(z3.And(b >= 0, b < 256))
                tot = z3.IntVal(0)
                for i, b in enumerate(bs):
                    tot = tot + b * (256 ** i)
                space.add(tot == val.var)
                arr = [_bl.SymbolicInt(b) for b in bs]
                if bo == "big":
                    arr.reverse()
                return _bl.SymbolicBytes(arr)

        _bl.SymbolicInt.to_bytes = _to_bytes

    # -- E7: IEEE bit model for struct.pack/unpack of f/d ------------------
    if _on("E7"):
        _orig_get = _bl.ModelingDirector.get

        def _get(self, typ):
            if typ is float:
                return _bl.PreciseIeeeSymbolicFloat
            return _orig_get(self, typ)

        _bl.ModelingDirector.get = _get

        _orig_pack = _core._PATCH_REGISTRATIONS[struct.pack]
        _orig_unpack = _core._PATCH_REGISTRATIONS[struct.unpack]
        _F = {"f": (z3.Float32(), 4), "d": (z3.Float64(), 8)}

        def _fmt(fmt):
            fmt = realize(fmt)
            if isinstance(fmt, bytes):
                fmt = fmt.decode("latin-1")
            if len(fmt) == 2 and fmt[0] in "<>" and fmt[1] in "fd":
                return fmt[0], fmt[1]
            return None

        def _pack(fmt, *args):
            f = _fmt(fmt)
            with NoTracing():
                sym = (
                    f is not None
                    and len(args) == 1
                    and isinstance(args[0], _bl.PreciseIeeeSymbolicFloat)
                )
            if not sym:
                return _orig_pack(fmt, *args)
            order, fc = f
            sort, n = _F[fc]
            with NoTracing():
                x = args[0].var
                space = context_statespace()
                if fc == "f":
                    r = z3.fpFPToFP(z3.RNE(), x, sort)
                    overflow = z3.And(z3.fpIsInf(r), z3.Not(z3.fpIsInf(x)))
                    ovf = bool(space.smt_fork(overflow, desc="f_overflow"))
                else:
                    r = x
                    ovf = False
            if ovf:
                raise OverflowError("float too large to pack with f format")
            with NoTracing():
                bv = z3.fpToIEEEBV(r)
                bs = [
                    _bl.SymbolicInt(z3.BV2Int(z3.Extract(8 * i + 7, 8 * i, bv)))
                    for i in range(n)
                ]
                if order == ">":
                    bs.reverse()
                return _bl.SymbolicBytes(bs)

        def _unpack(fmt, buffer):
            f = _fmt(fmt)
            with NoTracing():
                sym = f is not None and isinstance(
                    buffer, (_bl.SymbolicBytes, _bl.SymbolicByteArray)
                )
            if not sym:
                return _orig_unpack(fmt, buffer)
            order, fc = f
            sort, n = _F[fc]
            if len(buffer) != n:
                raise struct.error("unpack requires a buffer of %d bytes" % n)
            items = [buffer[i] for i in range(n)]
            with NoTracing():
                if order == ">":
                    items.reverse()
                parts = []
                for it in reversed(items):
                    v = it.var if isinstance(it, _bl.SymbolicInt) else z3.IntVal(int(it))
                    parts.append(z3.Int2BV(v, 8))
                bv = z3.Concat(*parts)
                r = z3.fpBVToFP(bv, sort)
                if fc == "f":
                    r = z3.fpFPToFP(z3.RNE(), r, z3.Float64())
                return (_bl.PreciseIeeeSymbolicFloat(r),)

        _core._PATCH_REGISTRATIONS[struct.pack] = _pack
        _core._PATCH_REGISTRATIONS[struct.unpack] = _unpack

    # -- E9: eager list-backed set model (subsumes E1) ---------------------
    if _on("E9"):
        from collections.abc import MutableSet as _AbcMutableSet

        _SMISSING = object()

        import abc as _abc
        import builtins as _builtins

        class _SetMeta(_abc.ABCMeta):
            # inside gtirb the name `set` denotes EagerSet (E9b): isinstance(x, set) must still be true for real sets
            def __instancecheck__(cls, obj):
                return type(obj) in (_builtins.set,) or super().__instancecheck__(obj)

            # under tracing CrossHair evaluates isinstance(x, T) as issubclass(type(x), T), and type() of the stand-in is `set`
            def __subclasscheck__(cls, sub):
                return sub is _builtins.set or super().__subclasscheck__(sub)

        class EagerSet(_AbcMutableSet, CrossHairValue, metaclass=_SetMeta):
            def __init__(self, items=()):
                self._items = []
                for x in items:
                    self.add(x)

            def __ch_realize__(self):
                return set(map(deep_realize, self._items))

            def __ch_pytype__(self):
                return set

            @classmethod
            def _from_iterable(cls, it):
                return EagerSet(it)

            def __contains__(self, x):
                if not is_hashable(x):
                    raise TypeError("unhashable type")
                for item in self._items:
                    if item is x or item == x:
                        return True
                return False

            def __iter__(self):
                return iter(list(self._items))

            def __len__(self):
                return len(self._items)

            def __bool__(self):
                return len(self._items) != 0

            def add(self, x):
                if x not in self:
                    self._items.append(x)

            def discard(self, x):
                if not is_hashable(x):
                    raise TypeError("unhashable type")
                for i, item in enumerate(self._items):
                    if item is x or item == x:
                        del self._items[i]
                        return

            def remove(self, x):
                if x not in self:
                    raise KeyError(x)
                self.discard(x)

            def pop(self):
                if not self._items:
                    raise KeyError("pop from an empty set")
                return self._items.pop(0)

            def clear(self):
                self._items = []

            def copy(self):
                return EagerSet(self._items)

            def update(self, *others):
                for o in others:
                    for x in o:
                        self.add(x)

            def difference_update(self, *others):
                for o in others:
                    for x in list(o):
                        self.discard(x)

            def intersection_update(self, *others):
                for o in others:
                    keep = EagerSet(o)
                    self._items = [x for x in self._items if x in keep]

            def symmetric_difference_update(self, other):
                self ^= EagerSet(other)

            def union(self, *others):
                r = EagerSet(self._items)
                r.update(*others)
                return r

            def difference(self, *others):
                r = EagerSet(self._items)
                r.difference_update(*others)
                return r

            def intersection(self, *others):
                r = EagerSet(self._items)
                r.intersection_update(*others)
                return r

            def symmetric_difference(self, other):
                r = EagerSet(self._items)
                r.symmetric_difference_update(other)
                return r

            def issubset(self, other):
                return all(x in other for x in self._items)

            def issuperset(self, other):
                return all(x in self for x in other)

            def __eq__(self, other):
                if not isinstance(other, (set, frozenset, _AbcMutableSet)):
                    return NotImplemented
                return len(self) == len(other) and all(x in other for x in self._items)

            def __repr__(self):
                return "set()"

            __hash__ = None

        def _set(itr=_SMISSING):
            if itr is _SMISSING:
                return EagerSet()
            return EagerSet(itr)

        _core._PATCH_REGISTRATIONS[set] = _set


def install_det_sets():
    """E9b: inside the gtirb modules the name `set` denotes the insertion-ordered EagerSet even while
    tracing is suspended, so that node sets built untraced iterate deterministically (real sets of
    nodes iterate in address order, which differs between CrossHair's re-executions)."""
    if CONCRETE or "E9" not in ACTIVE:
        return
    import sys as _sys

    for name, mod in list(_sys.modules.items()):
        if (name == "gtirb" or name.startswith("gtirb.")) and ".proto" not in name and mod is not None:
            mod.__dict__["set"] = EagerSet
    ACTIVE.append("E9b")


def warm_up():
    """E6: let networkx compile its argmap-decorated functions before tracing starts."""
    import gtirb

    ir = gtirb.IR()
    m = gtirb.Module(name="w", ir=ir)
    p = gtirb.ProxyBlock(module=m)
    q = gtirb.ProxyBlock(module=m)
    e = gtirb.Edge(p, q, gtirb.Edge.Label(gtirb.Edge.Type.Call, False, True))
    ir.cfg.add(e)
    ir.cfg.add(gtirb.Edge(p, q))
    list(ir.cfg.out_edges(p))
    list(ir.cfg.in_edges(q))
    list(ir.cfg)
    len(ir.cfg)
    e in ir.cfg
    ir.cfg.discard(e)
    ir.cfg.clear()
    ir2 = gtirb.IR._from_protobuf(ir._to_protobuf(), None)
    return ir2
