"""Regenerate MANIFEST.json from the table below (run by hand when a check is added)."""
import json
import os

VERIF = os.path.dirname(os.path.dirname(os.path.abspath(__file__)))

TECH = "bounded symbolic execution of the real Python code (CrossHair 0.0.110) decided by z3; counterexamples replayed concretely"
NOTE = ("Trusted base: z3 5.1, CrossHair's models of Python built-ins as adjusted in DESIGN 3.3 (E2-E9), the stubs of DESIGN 3.4 "
        "(ModelTree for intervaltree, ModelBytesIO, pure-Python protobuf backend, struct float model), the mini-protoc staging of "
        "/repo's working tree. Each verdict holds for all values inside the bounds stated in the evidence file; nothing is claimed outside them.")

CHECKS = {
    "C07": ("DESIGN 4 C07", "Leaf lemmas (every integer of every width, bool, UUID, Offset, float/double via z3 FP theory, strings over all of Unicode up to a length bound) plus container lemmas over a stub element codec give round trip and exact consumption for every type tree by structural induction; nested spot types, containers over real integer leaves of every width, float pairs, variants of unequal size inside containers, node resolution (incl. empty / zero-sized nodes) and decode-edit-decode histories exercise the induction argument and what it cannot see. Solver verdict per lemma: all values within bounds."),
    "C08": ("DESIGN 4 C08", "Same symbolic runs as C07 judged by an independent byte-level reference of the documented format (both directions: encoder output read by the reference, reference bytes read by the decoder). The Java codec cannot be built or executed symbolically here and is outside the claim."),
}

CHECKS.update({
    "C15": ("DESIGN 4 C15", "Tokeniser lemma decided by z3's regex theory over all characters and unbounded token length (pattern read from the current source), plus exhaustive path exploration of the real parser against an independent recursive-descent recogniser for every string over {a,b,<,>,,} up to length N (iff, exact tree, TypeNameError only), a sweep of 143 characters as name characters, and grammatical names of depth 3 with every pair of positions replaced by a delimiter or letter. The characters are concrete per path because re.findall is C code."),
    "C19": ("DESIGN 4 C19", "Assignment sequences over size / initialized_size / contents with the size values symbolic over the full 64-bit range, constructor and loader rejection with symbolic sizes, block address / contains_offset / contains_address with every integer symbolic, block contents over bounded offsets; each sequence ends with a message-level save/load."),
})

CHECKS.update({
    "C05": ("DESIGN 4 C05", "Block lookups at interval scope with two fully symbolic blocks, Optional interval address and symbolic range/stepped/point queries; edit histories (offset/size/discard/add/move/address edits with symbolic values) with index materialisation before every edit or never and ballast members that force the incremental-replay branch; must/may oracle at section, module and IR scope. Oracle: fresh linear scan of a plain model. Verdicts hold for every 64-bit value below 2^64-1."),
    "C06": ("DESIGN 4 C06", "byte_intervals_on/at at three scopes, sections_on/at and Section.address/size over two intervals with symbolic Optional addresses and sizes, plus edit histories on the section index (address to/from None, size, discard, add, move) with ballast; oracle: fresh scan and the extent formula."),
    "C12": ("DESIGN 4 C12", "One symbolic edit history replayed on two fresh copies, with lookups placed per every schedule of the shard and with none: final answers of every lookup must be equal. Ballast makes pending events smaller than, equal to and larger than the collection size; the branch taken by LazyIntervalTree.get is recorded in the evidence."),
    "C13": ("DESIGN 4 C13", "symbolic_expressions_at / _at_offset after every sequence of mapping operations (keys concrete, because SortedDict hashes them) with the interval address, re-addressing and the query range symbolic; union with must/may at section, module and IR scope."),
})

CHECKS.update({
    "C03": ("DESIGN 4 C03/C04", "Inductive step per parent/child relation: every pre-state shape of a pool with two IRs, two candidate parents (with every upward connection) and a full-depth moved subtree, crossed with every operation of the relation's alphabet; after the operation get_by_uuid of both IRs must equal the reachable set for every pool UUID. Plus twin IRs with pairwise equal UUIDs (hand-built and loaded twice). Bounded-exhaustive: the solver enumerates the feasible scenarios."),
    "C04": ("DESIGN 4 C03/C04", "Same runs as C03 judged by the forest oracle (collection membership iff parent attribute, no node twice, derived accessors and aggregate iterators as the forest implies, untouched nodes unchanged, expected owner after a move) plus the argument-aliasing / shared-default family."),
    "C16": ("DESIGN 4 C16", "Differential refinement against the built-in set, list and dict: every pre-state of a small pool crossed with the complete MutableSet / MutableSequence / MutableMapping interface (return value, contents, exception type, ownership and cache consistency after success or failure), documented deviations applied to the model."),
})

CHECKS.update({
    "C10": ("DESIGN 4 C10", "Inductive step over the symbol indexes: every state of one symbol (module, name incl. the empty string, payload among None/0/7/block/proxy) crossed with representative states of a second symbol, every placement of the referenced block and proxy, and every operation (rename, referent/value assignment, symbol set operations from either end, block/proxy/section/interval moves, constructors); symbols_named and references compared with a scan as identity lists without repetition."),
    "C11": ("DESIGN 4 C11", "CFG on real networkx against a Python set of (source, target, label) triples: pre-states with parallel edges in both insertion orders, then one or two operations of the full MutableSet alphabet; length, membership of all 12 edges, iteration, out_edges/in_edges and block views after every step."),
})

CHECKS.update({
    "C01": ("DESIGN 4 C01", "Per-kind harnesses with the kind's scalar fields symbolic over their schema ranges (Optional address, u64/i64 values, label flags, unknown attribute numbers, AuxData values) and every enum constant / payload kind / shape enumerated: IR._to_protobuf then IR._from_protobuf on pure-Python messages; an independent snapshot of all observable content must be equal, deep_eq must hold both ways, and a second generation must be equal."),
    "C02": ("DESIGN 4 C02", "Writer: every field of the produced message compared with the attribute through an explicit attribute-field table (presence flag, one-ofs, enum numbers looked up by name in the descriptor, vertices, 16-byte UUIDs, header bytes). Reader: messages built directly from the descriptors with symbolic fields (incl. has_address=False with a non-zero address, explicit defaults, every declared enum number), every attribute compared with the field. Each direction has its own postcondition."),
    "C14": ("DESIGN 4 C14", "AuxData lazy-table state machine: known table with symbolic contents under every action sequence (leave, read, mutate in place, assign, rename to same/other type, save+reload) judged by a three-field model and the reference reader; unknown, partially unknown, empty, non-canonical, non-ASCII and variant tables with concrete payloads; IR- and module-level tables."),
    "C18": ("DESIGN 4 C18", "Two builds per kind from parameter vectors whose scalar coordinates are symbolic over their full ranges; side B equals side A except for one free coordinate, for every coordinate; deep_eq must equal equality of an independent normal form, be symmetric and reflexive; children are inserted in opposite orders; cross-kind pairs sharing a UUID."),
})

CHECKS.update({
    "C09": ("DESIGN 4 C09", "Loader on messages built from the descriptors: each reference field selects its target from a pool containing every node kind, the IR and an unknown UUID; well-typed closed files must load with every reference being (Python `is`) the object reached through containment, anything else must raise DeserializationError exactly; AuxData UUID/Offset entries at IR and module level resolve to the attached object or stay plain UUIDs."),
    "C17": ("DESIGN 4 C17", "Header with all 8 bytes symbolic (and every shorter prefix) decided by z3; message version field symbolic; every truncation point and single-bit flip of a valid file and every single structural fault (uuid fields set to clashing / foreign / unknown / wrong-length values, undeclared enum numbers, size below contents, kind-less blocks and expressions, ...) and every dangling / ill-typed / wrong-length reference enumerated by the engine, whole-file loads with the message version in a set of values: the loader must raise (ValueError where the property says so) or return an IR that satisfies the C03 and C04 oracles, has no two attached nodes with one UUID, has well-typed references and integer symbol values, stored bytes within size, and can be saved again."),
})

NOT_APPLICABLE = {
}

PENDING = "check under construction in this session (see DESIGN 8); not claimed yet"


def main():
    props = [json.loads(l)["id"] for l in open(os.path.join(VERIF, "properties.jsonl"))]
    checks = []
    for pid in props:
        if pid not in CHECKS:
            continue
        ref, text = CHECKS[pid]
        checks.append({
            "property_id": pid,
            "quick_cmd": "sh tools/check.sh %s quick" % pid,
            "thorough_cmd": "sh tools/check.sh %s thorough" % pid,
            "evidence_file": "evidence/%s.json" % pid,
            "replay_cmd_template": "sh tools/check.sh --replay {path}",
            "engine": "crosshair+z3",
            "level_claimed": {"category": "model_checking", "text": text, "design_ref": ref},
            "level_note": NOTE,
            "technique": TECH,
        })
    na = []
    for pid in props:
        if pid in CHECKS:
            continue
        na.append({"property_id": pid, "reason": NOT_APPLICABLE.get(pid, PENDING)})
    m = {
        "version": 1,
        "setup_cmd": "sh tools/bootstrap.sh",
        "hooks": {
            "guard": "GTIRB_VERIF",
            "enable": "no source hook is needed: every substitution is made from the harness side (DESIGN 3.1); checks stage /repo's working tree into a scratch package on every run",
            "baseline_off_cmd": "cd /repo && /venv/bin/python -m pytest -ra -q -p no:cacheprovider --timeout=900 --continue-on-collection-errors",
            "source_commits": [],
            "add_only": True,
        },
        "engines": [{
            "name": "crosshair+z3",
            "path": "tools/check.py",
            "serves_properties": [c["property_id"] for c in checks],
            "kind_free_text": "symbolic execution of the staged gtirb package with CrossHair, z3 as the deciding solver, one OS process per condition shard",
        }],
        "checks": checks,
        "notes": "exit codes: 0 held, 1 reproduced violation (VIOLATION line), 2 build failure / inconclusive / harness error. known_findings.json lists genuine defects (fixed or open).",
        "not_applicable": na,
    }
    json.dump(m, open(os.path.join(VERIF, "MANIFEST.json"), "w"), indent=1)
    print("MANIFEST.json: %d checks, %d not claimed" % (len(checks), len(na)))


if __name__ == "__main__":
    main()
