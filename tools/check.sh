#!/bin/sh
# Entry point registered in MANIFEST.json: bootstrap the venv overlay, then decide the property.
HERE="$(cd "$(dirname "$0")" && pwd)"
"$HERE/bootstrap.sh" || { echo "BUILD-FAILURE: bootstrap"; exit 2; }
exec "$HERE/../.venv/bin/python" "$HERE/check.py" "$@"
