"""C09 - after load every reference is the attached object itself (DESIGN 4, C09)."""
from load_h import *  # noqa: F401,F403
import load_h as L

ASSUMPTIONS = [
    "the input of the loader harness is the message (ParseFromString's contract: it returns some message of the schema); scenarios are concrete once decoded (bounded-exhaustive)",
    "references stay inside their module or point to an earlier one (a symbol naming a block of a *later* module is not loadable in file order and is outside the claim)",
]
OUTSIDE = "more than two modules; three or more references perturbed at once; AuxData shapes beyond the five listed"
BOUNDS = {
    "quick": "two-module message with one node of every kind; each of the 7 reference fields (symbol referent, entry point, edge source/target, SymAddrConst symbol, SymAddrAddr symbol1/2) "
             "x 9 targets (code/data/proxy/symbol/section/interval/module/IR/unknown UUID); several references to one node; AuxData UUID/Offset/sequence/set/mapping entries at IR and module level "
             "x 11 targets with a symbolic displacement; every pair of reference fields x 81 target pairs; "
             "an expression of the second module naming a symbol of the first; cfg.vertices listing whatever the edges name",
    "thorough": "as quick",
}


def shards(tier):
    out = [{"fn": "refs1", "consts": {}, "timeout": 600}, {"fn": "aux_refs", "consts": {}, "timeout": 900},
           {"fn": "refs2", "consts": {}, "timeout": 1800}]
    return out
