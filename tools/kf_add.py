"""Development aid: append an entry to known_findings.json. usage: kf_add.py status property commit signature what"""
import json, sys
st, prop, commit, sig, what = sys.argv[1:6]
p = "/verif/known_findings.json"
kf = json.load(open(p))
e = {"status": st, "property": prop, "signature": sig, "what": what}
if st == "fixed":
    e["commit"] = commit
    e["line"] = "fixed: property=%s %s %s" % (prop, commit, what)
kf["findings"].append(e)
json.dump(kf, open(p, "w"), indent=1)
