"""C10 - symbol lookups by name and by referent track every change (DESIGN 4, C10).

Inductive step: a pre-state (where each of two symbols lives, its name, its payload, where the
referenced block and proxy live) chosen by small symbolic integers and built through the public API,
then one (thorough: two) operation(s); afterwards symbols_named(n) for every name of the pool on
every module, and references of every block, must equal a scan of the current structure - as lists
of identities without repetition.
"""
from uuid import UUID

from hbase import SHARD, count, done, fail, pick, untraced

import gtirb

NAMES = ("", "a", "b")
NPAY = 5          # None, 0, 7, code block, proxy


class W:
    pass


def build(y0s, y1s, place):
    """y*s = (module idx 0 none/1 m0/2 m1, name idx, payload idx); place = (b0's section module, p0 module) each 0/1/2"""
    w = W()
    w.ir = gtirb.IR(uuid=UUID(int=1))
    w.mods = [gtirb.Module(name="m0", uuid=UUID(int=10), ir=w.ir), gtirb.Module(name="m1", uuid=UUID(int=11), ir=w.ir)]
    w.sec = gtirb.Section(name="s", uuid=UUID(int=20))
    w.bi = gtirb.ByteInterval(size=4, uuid=UUID(int=30), section=w.sec)
    w.b0 = gtirb.CodeBlock(size=SHARD.get("b0size", 1), uuid=UUID(int=40), byte_interval=w.bi)
    w.p0 = gtirb.ProxyBlock(uuid=UUID(int=50))
    if place[0]:
        w.sec.module = w.mods[place[0] - 1]
    if place[1]:
        w.p0.module = w.mods[place[1] - 1]
    w.pay = [None, 0, 7, w.b0, w.p0]
    w.syms = []
    for i, (mi, ni, pi) in enumerate((y0s, y1s)):
        y = gtirb.Symbol(NAMES[ni], uuid=UUID(int=60 + i), payload=w.pay[pi])
        if mi:
            y.module = w.mods[mi - 1]
        w.syms.append(y)
    return w


def ops(w):
    y0, y1 = w.syms[:2]
    m0, m1 = w.mods[:2]
    out = []

    def op(name, f):
        out.append((name, f))

    for i, y in enumerate((y0, y1)):
        for n in NAMES:
            op("y%d.name=%r" % (i, n), lambda y=y, n=n: setattr(y, "name", n))
        op("y%d.referent=b0" % i, lambda y=y: setattr(y, "referent", w.b0))
        op("y%d.referent=p0" % i, lambda y=y: setattr(y, "referent", w.p0))
        op("y%d.referent=None" % i, lambda y=y: setattr(y, "referent", None))
        op("y%d.value=0" % i, lambda y=y: setattr(y, "value", 0))
        op("y%d.value=7" % i, lambda y=y: setattr(y, "value", 7))
        op("y%d.value=None" % i, lambda y=y: setattr(y, "value", None))
        for j, m in enumerate((None, m0, m1)):
            op("y%d.module=%s" % (i, "None" if m is None else "m%d" % (j - 1)), lambda y=y, m=m: setattr(y, "module", m))
        op("m0.symbols.add(y%d)" % i, lambda y=y: m0.symbols.add(y))
        op("m0.symbols.discard(y%d)" % i, lambda y=y: m0.symbols.discard(y))
        op("m1.symbols.remove(y%d)" % i, lambda y=y: m1.symbols.remove(y))
    op("m0.symbols.pop()", lambda: m0.symbols.pop())
    op("m0.symbols.clear()", lambda: m0.symbols.clear())
    op("m1.symbols.update([y0,y1])", lambda: m1.symbols.update([y0, y1]))
    op("m1.symbols|={y0}", lambda: m1.symbols.__ior__({y0}))
    op("m0.symbols-={y0,y1}", lambda: m0.symbols.__isub__({y0, y1}))
    op("m0.symbols^={y0}", lambda: m0.symbols.__ixor__({y0}))
    for j, m in enumerate((None, m0, m1)):
        nm = "None" if m is None else "m%d" % (j - 1)
        op("p0.module=%s" % nm, lambda m=m: setattr(w.p0, "module", m))
        op("sec.module=%s" % nm, lambda m=m: setattr(w.sec, "module", m))
    op("m0.proxies.add(p0)", lambda: m0.proxies.add(w.p0))
    op("m1.proxies.add(p0)", lambda: m1.proxies.add(w.p0))
    op("m0.proxies.discard(p0)", lambda: m0.proxies.discard(w.p0))
    op("m0.sections.add(sec)", lambda: m0.sections.add(w.sec))
    op("m1.sections.update([sec])", lambda: m1.sections.update([w.sec]))
    op("m0.sections.clear()", lambda: m0.sections.clear())
    op("b0.size=0", lambda: setattr(w.b0, "size", 0))
    op("b0.size=2", lambda: setattr(w.b0, "size", 2))
    op("bi.section=None", lambda: setattr(w.bi, "section", None))
    op("bi.section=sec", lambda: setattr(w.bi, "section", w.sec))
    op("b0.byte_interval=None", lambda: setattr(w.b0, "byte_interval", None))
    op("b0.byte_interval=bi", lambda: setattr(w.b0, "byte_interval", w.bi))
    op("new symbol 'a'->b0 in m0", lambda: w.syms.append(gtirb.Symbol("a", uuid=UUID(int=70), payload=w.b0, module=m0)))
    op("Module(symbols=[y0,y1])", lambda: w.mods.append(gtirb.Module(name="m2", uuid=UUID(int=12), symbols=[y0, y1], ir=w.ir)))
    return out


def _same_ids(got, exp):
    if len(got) != len(exp):
        return False
    return all(any(g is e for g in got) for e in exp) and all(any(g is e for e in exp) for g in got)


def check(w):
    for mi, m in enumerate(w.mods):
        for n in NAMES + ("zz",):
            got = list(m.symbols_named(n))
            exp = [y for y in m.symbols if y.name == n]
            if not _same_ids(got, exp):
                return "m%d.symbols_named(%r) yields %d symbols, scan finds %d" % (mi, n, len(got), len(exp))
    for bn, b in (("b0", w.b0), ("p0", w.p0)):
        got = list(b.references)
        mod = b.module
        exp = [] if mod is None else [y for y in mod.symbols if y.referent is b]
        if not _same_ids(got, exp):
            return "%s.references yields %d symbols, scan finds %d" % (bn, len(got), len(exp))
    return None


def run(y0s, y1s, place, opis):
    w = build(y0s, y1s, place)
    why = check(w)
    if why:
        return "pre-state: " + why, ""
    names = []
    for opi in opis:
        o = ops(w)
        name, f = o[opi % len(o)]
        names.append(name)
        try:
            f()
        except Exception as e:  # noqa: BLE001
            if not isinstance(e, KeyError):
                return "undeclared %s" % type(e).__name__, ";".join(names)
        why = check(w)
        if why:
            return why, ";".join(names)
    return None, ";".join(names)


SHARD.setdefault("b0size", 1)
N_OPS = len(ops(build((0, 0, 0), (0, 0, 0), (0, 0))))
Y1_QUICK = [(1, 1, 3), (2, 0, 4), (1, 1, 2)]


def step(ym: int, yn: int, yp: int, pl: int, z: int, op: int, op2: int) -> bool:
    """
    pre: 0 <= ym < 3 and 0 <= yn < 3 and 0 <= yp < NPAY
    pre: 0 <= pl < 9
    pre: 0 <= z < SHARD["nz"]
    pre: 0 <= op < SHARD["nops"] and 0 <= op2 < SHARD["nops2"]
    post: __return__
    """
    k2 = SHARD["nops2"] > 1
    if k2:
        # K = 2 runs on a reduced pre-state set: y0 attached, named 'a', payload a block or proxy (or any payload in the
        # thorough tier); three placements; y1 in one (quick) or three representative states
        y0s = (1 + pick(ym, 2), 1, (pick(yp, NPAY) if SHARD.get("k2_full") else 3 + pick(yp, 2)))
        place = ((1, 1), (1, 2), (0, 1))[pick(pl, 3)]
        y1s = tuple(Y1_QUICK[pick(z, SHARD["nz"])])
    else:
        y0s = (pick(ym, 3), pick(yn, 3), pick(yp, NPAY))
        p = pick(pl, 9)
        place = (p // 3, p % 3)
        zz = pick(z, SHARD["nz"])
        if SHARD["full_y1"]:
            y1s = (SHARD["y1m"], zz // NPAY, zz % NPAY)
        else:
            y1s = tuple(Y1_QUICK[zz])
    if "first_ops" in SHARD:
        opis = [SHARD["first_ops"][pick(op, len(SHARD["first_ops"]))]]
    else:
        opis = [SHARD["op_lo"] + pick(op, SHARD["nops"])]
    if k2:
        opis.append(pick(op2, SHARD["nops2"]))
    with untraced():
        why, names = run(y0s, y1s, place, opis)
    if why is not None:
        return fail("y0=%s y1=%s place=%s ops=%s: %s" % (y0s, y1s, place, names, why))
    count("scenarios")
    return done()


ASSUMPTIONS = [
    "structure-only: scenarios are concrete once the choice integers are decoded; the engine enumerates them (bounded-exhaustive)",
    "induction over the index invariant (name index and referent index equal the scan) as in C03/C04",
]
OUTSIDE = "more than two symbols / two modules / one block and one proxy; names outside {'', 'a', 'b'}; histories longer than the tier's K"
BOUNDS = {
    "quick": "y0: every (module, name, payload) state (45) x y1 in 2 representative states x 9 placements of block and proxy x %d operations, K = 1" % N_OPS,
    "thorough": "y0 x y1 both over all 45 states x 9 placements x %d operations (K = 1), and K = 2 (all %d x %d operation pairs) on 90 pre-states (y0 attached and named 'a', y1 in 3 representative states, 3 placements)" % (N_OPS, N_OPS, N_OPS),
}


def shards(tier):
    out = []
    chunk = 3
    if tier == "quick":
        for lo in range(0, N_OPS, chunk):
            out.append({"fn": "step", "consts": {"full_y1": 0, "nz": 2, "op_lo": lo, "nops": min(chunk, N_OPS - lo), "nops2": 1,
                                                 "b0size": (lo // chunk) % 2},
                        "timeout": 900, "twin": "first", "cover": "first"})
        # two operations in sequence on a reduced pre-state set (leave-and-return sequences)
        names = [n for n, _f in ops(build((0, 0, 0), (0, 0, 0), (0, 0)))]
        leaving = [i for i, n in enumerate(names) if any(k in n for k in (".module=", "discard", "remove", "clear", "pop", "proxies", "sections", "section=", "byte_interval="))]
        for lo in range(0, len(leaving), 2):
            fo = leaving[lo:lo + 2]
            out.append({"fn": "step", "consts": {"full_y1": 0, "nz": 1, "first_ops": fo, "op_lo": 0, "nops": len(fo), "nops2": N_OPS, "b0size": 1},
                        "timeout": 900, "twin": False, "cover": False})
    else:
        for y1m in (1, 2):
            for lo in range(0, N_OPS, chunk):
                out.append({"fn": "step", "consts": {"full_y1": 1, "y1m": y1m, "nz": 3 * NPAY, "op_lo": lo, "nops": min(chunk, N_OPS - lo), "nops2": 1, "b0size": (lo // chunk + y1m) % 2},
                            "timeout": 1800, "twin": "first", "cover": "first"})
        for lo in range(0, N_OPS, 1):
            out.append({"fn": "step", "consts": {"full_y1": 0, "nz": len(Y1_QUICK), "k2_full": 1, "op_lo": lo, "nops": 1, "nops2": N_OPS, "b0size": lo % 2},
                        "timeout": 1800, "twin": False, "cover": False})
    return out
