"""C13 - symbolic-expression lookup by address equals a fresh scan (DESIGN 4, C13)."""
import itertools

from index_h import *  # noqa: F401,F403

BOUNDS = {
    "quick": "interval address Optional in [0,2^64-1) (symbolic), re-addressing, start/stop symbolic, step symbolic over the full range for <= 2 keys and one of {1,2,3,5} otherwise, point queries; offsets from the concrete pool {0..9} evolved by every "
             "sequence of <= 2 mapping operations over {set, del, pop, popitem, setdefault, update, clear, whole-mapping assignment}; section/module/IR scope with two intervals "
             "(one with a symbolic size, one with an expression beyond its extent) in two layouts",
    "thorough": "sequences of <= 3 mapping operations",
}
OUTSIDE = "expression offsets are concrete per path (SortedDict hashes its keys); more than two intervals; offsets above 9"
ASSUMPTIONS = ["sortedcontainers.SortedDict is used as is (real code); its keys are concrete", "intervaltree replaced by ModelTree for the section index (as C05)"]
MAPOPS = ["set", "del", "pop", "popitem", "setdefault", "update", "clear", "assign", "del_absent", "assign_mapping"]


def shards(tier):
    out = []
    K = 2 if tier == "quick" else 3
    seqs = [[]]
    for k in range(1, K + 1):
        for ops in itertools.product(MAPOPS, repeat=k):
            # del/pop need their key to be present
            model = {0, 1, 4, 7, 9}
            ok = True
            for op in ops:
                if op == "del":
                    ok = ok and 4 in model
                    model.discard(4)
                elif op == "pop":
                    ok = ok and 7 in model
                    model.discard(7)
                elif op == "popitem":
                    ok = ok and bool(model)
                    if model:
                        model.discard(max(model))
                elif op == "set":
                    model |= {5, 1}
                elif op == "setdefault":
                    model |= {2, 0}
                elif op == "update":
                    model |= {3, 8}
                elif op == "clear":
                    model = set()
                elif op == "assign":
                    model = {6, 0}
                elif op == "assign_mapping":
                    model = {2, 3, 8}
            if ok:
                seqs.append(list(ops))
    for i, ops in enumerate(seqs):
        q = ("stepc", "range", "point")[i % 3] if ops else "stepc"
        view = ("addr", "offset")[(i // 3) % 2] if ops else "addr"
        out.append({"fn": "se_at", "consts": {"ops": ops, "q": q, "view": view, "readdr": i % 2 if view == "addr" else 0}, "timeout": 600, "twin": "first", "cover": "first"})
        if len(ops) <= 1:
            other = "offset" if view == "addr" else "addr"
            out.append({"fn": "se_at", "consts": {"ops": ops, "q": q, "view": other, "readdr": 0}, "timeout": 600, "twin": "first", "cover": "first"})
    out.append({"fn": "se_at", "consts": {"ops": [], "q": "point", "readdr": 0}, "timeout": 600})
    out.append({"fn": "se_huge", "consts": {}, "timeout": 300, "cover": False})
    out.append({"fn": "se_at", "consts": {"ops": [], "q": "step", "readdr": 0, "keys": [0, 3]}, "timeout": 900})
    out.append({"fn": "se_at", "consts": {"ops": [], "q": "step", "readdr": 1, "keys": [1]}, "timeout": 900})
    out.append({"fn": "se_at", "consts": {"ops": [], "q": "range", "readdr": 1}, "timeout": 600})
    for scope in ("section", "module", "ir"):
        for lay in (0, 1):
            for q in ("range", "point"):
                out.append({"fn": "se_scope", "consts": {"scope": scope, "layout": lay, "q": q}, "timeout": 900})
            for st in (2, 3, 5):
                out.append({"fn": "se_scope", "consts": {"scope": scope, "layout": lay, "q": "stepk", "st": st}, "timeout": 900})
    return out
