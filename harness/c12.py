"""C12 - deferred index maintenance is unobservable (DESIGN 4, C12).

One symbolic edit history is replayed twice on two fresh copies of the same structure: once with
index-materialising lookups placed per the shard's schedule, once with none before the end; the final
answers of every lookup must be identical.  Ballast members make the pending-event count smaller than,
equal to and larger than the collection size (two events per attribute assignment).
"""
import itertools

from index_h import *  # noqa: F401,F403
import c05 as _c05

BOUNDS = {
    "quick": "block index: every single edit and 12 edit pairs over {offset=, size=, discard, add, move, address=, address=None} x every placement of lookups, ballast 3/4; "
             "section index: every single edit and 8 pairs over {address=, address=None, size=, discard, add, move} x every placement, ballast 3/4; all values symbolic",
    "thorough": "histories of <= 3 edits, ballast 0/3/5",
}
OUTSIDE = _c05.OUTSIDE
ASSUMPTIONS = _c05.ASSUMPTIONS + ["additional lookups are modelled by their only side effect, LazyIntervalTree.get() (empty-range query / Section.address read)"]
SEC_EDITS = "ANZram"
SEC_PAIRS = ["AZ", "ZA", "AA", "ra", "ma", "NA", "rA", "mZ", "Nr", "Nm", "rN"]


def sec_history_shards(tier, fn, all_scheds):
    out = []
    K = 2 if tier == "quick" else 3
    nbs = (3, 4) if tier == "quick" else (0, 3, 5)
    for k in range(1, K + 1):
        seqs = list(SEC_EDITS) if k == 1 else (SEC_PAIRS if k == 2 else [a + b for a in SEC_PAIRS for b in "AZ"])
        full = (1 << (k + 1)) - 1
        scheds = list(range(1, 1 << k)) if all_scheds else ([0, full] + ([1] if k >= 2 else []))
        if k == 3 and all_scheds:
            scheds = [1, 2, 4, 7]
        for ops in seqs:
            for sched in scheds:
                for nb in nbs:
                    if k >= 2 and nb != nbs[0] and sched in (0, 2, 4):
                        continue
                    if k >= 2 and not all_scheds and sched == 1 and nb != nbs[-1]:
                        continue
                    out.append({"fn": fn, "consts": {"ops": ops, "sched": sched, "nb": nb}, "timeout": 900})
    # the same node toggled three times without a lookup in between (a de-duplicated or reordered backlog shows only then)
    # growth without events after a burst; a lookup while the section is empty, then refilled with an address-less interval
    for ops, sched, nb in (("AZu", 1, 3), ("AAu", 1, 3), ("rua", 3, 0), ("rud", 3, 0), ("uAd", 1, 3), ("AZAu", 1, 3), ("AAZu", 1, 3), ("ZAAu", 1, 4), ("ru", 3, 0), ("mu", 3, 0), ("ruA", 3, 0), ("ArA", 1, 4), ("ZrA", 1, 4), ("AmZ", 1, 4), ("armA", 1, 4)):
        out.append({"fn": fn, "consts": {"ops": ops, "sched": sched, "nb": nb}, "timeout": 900})
    for ops in ("rar", "ara", "AAA"):
        for sched in ((1,) if all_scheds else (1,)):
            out.append({"fn": fn, "consts": {"ops": ops, "sched": sched, "nb": 4}, "timeout": 900})
    return out


def shards(tier):
    return _c05.history_shards(tier, "blk_sched", all_scheds=True) + sec_history_shards(tier, "sec_sched", True)
