"""Mini protoc: parse the proto3 subset used by gtirb (syntax, package, option java_package,
import, enum, message, oneof, map<,>, repeated, reserved) and build FileDescriptorProtos.
Anything outside the subset raises (=> build failure, exit 2)."""
import re, sys, os
from google.protobuf import descriptor_pb2 as D

SCALARS = {
    "double": 1, "float": 2, "int64": 3, "uint64": 4, "int32": 5, "fixed64": 6, "fixed32": 7,
    "bool": 8, "string": 9, "bytes": 12, "uint32": 13, "sfixed32": 15, "sfixed64": 16,
    "sint32": 17, "sint64": 18,
}

def tokenize(src):
    src = re.sub(r"//[^\n]*", "", src)
    src = re.sub(r"/\*.*?\*/", "", src, flags=re.S)
    return re.findall(r'"(?:[^"\\]|\\.)*"|[A-Za-z_][\w.]*|\d+|[{}=;<>,\[\]()]', src)

def camel(s):
    parts = s.split("_")
    return "".join(p[:1].upper() + p[1:] for p in parts)

def json_name(s):
    out = []; up = False
    for c in s:
        if c == "_": up = True
        elif up: out.append(c.upper()); up = False
        else: out.append(c)
    return "".join(out)

class P:
    def __init__(self, toks): self.t = toks; self.i = 0
    def peek(self): return self.t[self.i] if self.i < len(self.t) else None
    def next(self):
        v = self.t[self.i]; self.i += 1; return v
    def expect(self, v):
        g = self.next()
        assert g == v, (g, v, self.t[max(0,self.i-5):self.i+5])

def parse_file(path, name, import_prefix):
    p = P(tokenize(open(path).read()))
    f = D.FileDescriptorProto(); f.name = name
    while p.peek() is not None:
        t = p.next()
        if t == "syntax":
            p.expect("="); f.syntax = p.next().strip('"'); p.expect(";")
        elif t == "package":
            f.package = p.next(); p.expect(";")
        elif t == "option":
            k = p.next(); p.expect("="); v = p.next().strip('"'); p.expect(";")
            if k == "java_package": f.options.java_package = v
            else: raise ValueError("option " + k)
        elif t == "import":
            f.dependency.append(import_prefix + p.next().strip('"')); p.expect(";")
        elif t == "enum":
            parse_enum(p, f.enum_type.add())
        elif t == "message":
            parse_message(p, f.message_type.add())
        elif t == ";":
            pass
        else:
            raise ValueError("unexpected " + t)
    return f

def parse_enum(p, e):
    e.name = p.next(); p.expect("{")
    while p.peek() != "}":
        n = p.next(); p.expect("="); v = int(p.next()); p.expect(";")
        ev = e.value.add(); ev.name = n; ev.number = v
    p.expect("}")

def parse_reserved(p, m):
    while True:
        t = p.next()
        if t.startswith('"'):
            m.reserved_name.append(t.strip('"'))
        else:
            lo = int(t); hi = lo
            if p.peek() == "to":
                p.next(); hi = int(p.next())
            r = m.reserved_range.add(); r.start = lo; r.end = hi + 1
        if p.peek() == ",": p.next(); continue
        p.expect(";"); break

def parse_field(p, m, first, oneof_index=None):
    label = 1
    if first == "repeated":
        label = 3; first = p.next()
    if first == "map":
        p.expect("<"); kt = p.next(); p.expect(","); vt = p.next(); p.expect(">")
        name = p.next(); p.expect("="); num = int(p.next()); p.expect(";")
        entry = m.nested_type.add(); entry.name = camel(name) + "Entry"; entry.options.map_entry = True
        kf = entry.field.add(); kf.name = "key"; kf.number = 1; kf.label = 1; kf.json_name = "key"; set_type(kf, kt)
        vf = entry.field.add(); vf.name = "value"; vf.number = 2; vf.label = 1; vf.json_name = "value"; set_type(vf, vt)
        fld = m.field.add(); fld.name = name; fld.number = num; fld.label = 3; fld.type = 11
        fld.type_name = "@NESTED@" + entry.name; fld.json_name = json_name(name)
        return
    typ = first
    name = p.next(); p.expect("="); num = int(p.next()); p.expect(";")
    fld = m.field.add(); fld.name = name; fld.number = num; fld.label = label; fld.json_name = json_name(name)
    set_type(fld, typ)
    if oneof_index is not None: fld.oneof_index = oneof_index

def set_type(fld, typ):
    if typ in SCALARS: fld.type = SCALARS[typ]
    else: fld.type_name = "@UNRESOLVED@" + typ

def parse_message(p, m):
    m.name = p.next(); p.expect("{")
    while p.peek() != "}":
        t = p.next()
        if t == "reserved": parse_reserved(p, m)
        elif t == "oneof":
            o = m.oneof_decl.add(); o.name = p.next(); idx = len(m.oneof_decl) - 1; p.expect("{")
            while p.peek() != "}": parse_field(p, m, p.next(), idx)
            p.expect("}")
        elif t == "message": parse_message(p, m.nested_type.add())
        elif t == "enum": parse_enum(p, m.enum_type.add())
        elif t == ";": pass
        else: parse_field(p, m, t)
    p.expect("}")

def resolve(files):
    # symbol table: full name -> 'message'|'enum'
    table = {}
    def walk(pkg, msgs, enums):
        for e in enums: table[pkg + "." + e.name] = "enum"
        for m in msgs:
            table[pkg + "." + m.name] = "message"
            walk(pkg + "." + m.name, m.nested_type, m.enum_type)
    for f in files: walk("." + f.package, f.message_type, f.enum_type)
    def fix(pkg, scope, m):
        me = scope + "." + m.name
        for fld in m.field:
            if fld.type_name.startswith("@NESTED@"):
                fld.type_name = me + "." + fld.type_name[len("@NESTED@"):]
            elif fld.type_name.startswith("@UNRESOLVED@"):
                n = fld.type_name[len("@UNRESOLVED@"):]
                cands = []
                s = me
                while True:
                    cands.append(s + "." + n)
                    if "." not in s[1:]: break
                    s = s.rsplit(".", 1)[0]
                cands.append("." + n)
                for c in cands:
                    if c in table:
                        fld.type_name = c; fld.type = 11 if table[c] == "message" else 14; break
                else:
                    raise ValueError("unresolved type " + n)
        for n in m.nested_type: fix(pkg, me, n)
    for f in files:
        for m in f.message_type: fix(f.package, "." + f.package, m)

