"""C18 - deep_eq is exact structural equality (DESIGN 4, C18).

Two objects A = build(p), B = build(q) of one kind from two parameter vectors whose scalar
coordinates are symbolic (full ranges) and whose discrete coordinates are small choices.
Post: A.deep_eq(B) == (canon(p) == canon(q)), deep_eq symmetric, reflexive.  `canon` is the
harness's own normal form (children sorted by UUID, AuxData values dropped).  A field missing from a
deep_eq body shows up as a model p, q differing only there, so single-field perturbations need no
separate enumeration.
"""
from typing import Optional
from uuid import UUID

from hbase import SHARD, U64, I63, count, done, fail, pick, untraced

import gtirb

NAMES = ("", "a", "éb")
ISAS = list(gtirb.Module.ISA)
FFS = list(gtirb.Module.FileFormat)
BOS = list(gtirb.Module.ByteOrder)
ETYPES = list(gtirb.Edge.Type)
FLAGS = [gtirb.Section.Flag.Readable, gtirb.Section.Flag.Executable]
ATTRS = [gtirb.SymbolicExpression.Attribute.GOT, gtirb.SymbolicExpression.Attribute.PLT, 4242]
DMODES = list(gtirb.CodeBlock.DecodeMode)


def U(i):
    return UUID(int=1000 + i)


def _u64(x):
    return 0 <= x < U64


def _i64(x):
    return -I63 <= x < I63


def _ou64(x):
    return x is None or 0 <= x < U64


def _verdict(A, B, same, what):
    ab = A.deep_eq(B)
    ba = B.deep_eq(A)
    if ab != ba:
        return fail("%s: deep_eq is not symmetric (a.deep_eq(b)=%s, b.deep_eq(a)=%s)" % (what, ab, ba))
    if ab != same:
        return fail("%s: deep_eq=%s but contents %s" % (what, ab, "equal" if same else "differ"))
    if not A.deep_eq(A) or not B.deep_eq(B):
        return fail("%s: deep_eq is not reflexive" % what)
    return done()


def _mk_block(kind, ui, dm):
    if kind == 0:
        return gtirb.CodeBlock(uuid=U(ui), decode_mode=DMODES[dm])
    if kind == 1:
        return gtirb.DataBlock(uuid=U(ui))
    return gtirb.ProxyBlock(uuid=U(ui))


def _label(li, cond, direct):
    if li == 0:
        return None
    return gtirb.Edge.Label(ETYPES[(li - 1) % len(ETYPES)], cond, direct)


# coordinate tables: (name, type) with type = int n (discrete 0..n-1) | "u64" | "i64" | "u32" | "opt" | "bool"
COORDS = {
    "blocks": [("kind", 3), ("uuid", 2), ("dm", 2), ("off", "u64"), ("size", "u64")],
    "symbols": [("uuid", 2), ("name", 3), ("pk", 3), ("rk", 3), ("val", "u64"), ("at_end", "bool")],
    "exprs": [("kind", 2), ("s1", 2), ("s2", 2), ("amask", 8), ("sname", 2), ("sown", 2), ("off", "i64"), ("scale", "i64")],
    "intervals": [("uuid", 2), ("clen", 3), ("c0", 2), ("nblk", 3), ("bk", 2), ("nexp", 5), ("addr", "opt"), ("size", "u64"), ("boff", "u64")],
    "sections": [("uuid", 2), ("name", 3), ("fmask", 4), ("nbi", 3), ("isz", "u64")],
    "modules": [("uuid", 2), ("which", 5), ("val", 3), ("kids", 4), ("ep", 2), ("aux", 4), ("pa", "u64"), ("rd", "i64")],
    "irs": [("uuid", 2), ("nmod", 3), ("e1", 3), ("l1", 3), ("e2", 2), ("aux", 3), ("ver", "u32"), ("c1", "bool"), ("d1", "bool")],
}
KIDS = [0, 1, 3, 7]
AUX3 = [0, 1, 3]


def build(kind, v, order):
    """v: dict coordinate -> value (discrete ones concrete, scalars possibly symbolic). Discrete structure is built
    untraced; scalar attributes are assigned afterwards under tracing."""
    with untraced():
        if kind == "blocks":
            o = _mk_block(v["kind"], v["uuid"], v["dm"])
        elif kind == "symbols":
            ref = _mk_block(v["rk"], 5, 0) if v["pk"] == 2 else None
            o = gtirb.Symbol(NAMES[v["name"]], uuid=U(v["uuid"]), payload=ref)
        elif kind == "exprs":
            attrs = [ATTRS[i] for i in range(3) if (v["amask"] >> i) & 1]
            # the first symbol's name varies, and it may be owned by a module (each side has its own module object)
            y1 = gtirb.Symbol(NAMES[1 + v["sname"]], uuid=U(20 + v["s1"]))
            y2 = gtirb.Symbol(NAMES[1], uuid=U(20 + v["s2"]))
            if v["sown"]:
                y1.module = gtirb.Module(name="own", uuid=U(70))
            o = gtirb.SymAddrConst(0, y1, attributes=attrs) if v["kind"] == 0 else gtirb.SymAddrAddr(0, 0, y1, y2, attributes=attrs)
        elif kind == "intervals":
            o = gtirb.ByteInterval(uuid=U(v["uuid"]), size=8, contents=bytes([(1, 200)[v["c0"]], 7][:v["clen"]]))
            blks = []
            if v["nblk"] >= 1:
                blks.append(_mk_block(v["bk"], 10, 0))
            if v["nblk"] >= 2:
                blks.append(gtirb.DataBlock(uuid=U(11), size=2))
            if order:
                blks.reverse()
            for b in blks:
                b.byte_interval = o
            o._first = blks[-1 if order else 0] if blks else None
            if v["nexp"]:
                # 1: at offset 0; 2: at offset 4; 3: as 1 with the symbol owned by a module; 4: as 3 with another symbol name
                y = gtirb.Symbol("b" if v["nexp"] == 4 else "a", uuid=U(20))
                if v["nexp"] >= 3:
                    y.module = gtirb.Module(name="own", uuid=U(70))
                o.symbolic_expressions[4 if v["nexp"] == 2 else 0] = gtirb.SymAddrConst(1, y)
        elif kind == "sections":
            o = gtirb.Section(name=NAMES[v["name"]], uuid=U(v["uuid"]), flags=[FLAGS[i] for i in range(2) if (v["fmask"] >> i) & 1])
            bis = []
            if v["nbi"] >= 1:
                bis.append(gtirb.ByteInterval(uuid=U(30), size=0))
            if v["nbi"] >= 2:
                bis.append(gtirb.ByteInterval(uuid=U(31), size=3))
            if order:
                bis.reverse()
            for b in bis:
                b.section = o
            o._first = bis[-1 if order else 0] if bis else None
        elif kind == "modules":
            kw = dict(name="m", binary_path="", isa=ISAS[0], file_format=FFS[0], byte_order=BOS[0])
            w, val = v["which"], v["val"]
            if w == 0:
                kw["name"] = NAMES[val]
            elif w == 1:
                kw["binary_path"] = NAMES[val]
            elif w == 2:
                kw["isa"] = ISAS[(val * 5) % len(ISAS)]
            elif w == 3:
                kw["file_format"] = FFS[(val * 4) % len(FFS)]
            else:
                kw["byte_order"] = BOS[val % len(BOS)]
            o = gtirb.Module(uuid=U(v["uuid"]), **kw)
            kids = KIDS[v["kids"]]
            parts = []
            cb = None
            if kids & 1:
                s = gtirb.Section(name="s", uuid=U(40))
                bi = gtirb.ByteInterval(uuid=U(41), size=4, section=s)
                cb = gtirb.CodeBlock(uuid=U(42), size=1, byte_interval=bi)
                parts.append(("module", s))
            if kids & 2:
                parts.append(("module", gtirb.Symbol("y", uuid=U(43))))
                parts.append(("module", gtirb.Symbol("z", uuid=U(45))))
            if kids & 4:
                parts.append(("module", gtirb.ProxyBlock(uuid=U(44))))
            if order:
                parts.reverse()
            for attr, n in parts:
                setattr(n, attr, o)
            if v["ep"] and cb is not None:
                o.entry_point = cb
            for k in range(2):
                if (v["aux"] >> k) & 1:
                    o.aux_data["k%d" % k] = gtirb.AuxData(k + order, "uint8_t")   # values differ on purpose
        elif kind == "irs":
            o = gtirb.IR(uuid=U(v["uuid"]))
            mods = [gtirb.Module(name="m%d" % k, uuid=U(50 + k)) for k in range(v["nmod"])]
            if order:
                mods.reverse()
            for m in mods:
                m.ir = o
            n = [gtirb.ProxyBlock(uuid=U(60)), gtirb.ProxyBlock(uuid=U(61))]
            o._n = n
            aux = AUX3[v["aux"]]
            for k in range(2):
                if (aux >> k) & 1:
                    o.aux_data["k%d" % k] = gtirb.AuxData([order], "sequence<uint8_t>")
        else:
            raise AssertionError(kind)
    # scalar attributes (possibly symbolic), assigned through the public attributes
    if kind == "blocks":
        if v["kind"] != 2:
            o.offset = v["off"]
            o.size = v["size"]
    elif kind == "symbols":
        o.at_end = v["at_end"]
        if v["pk"] == 1:
            o.value = v["val"]
        elif v["pk"] == 2 and v["rk"] != 2:
            o.referent.offset = v["val"]
    elif kind == "exprs":
        o.offset = v["off"]
        if v["kind"] == 1:
            o.scale = v["scale"]
    elif kind == "intervals":
        o.address = v["addr"]
        o.size = v["size"] + 2
        if o._first is not None and v["nblk"] >= 1:
            o._first.offset = v["boff"]
    elif kind == "sections":
        if o._first is not None:
            o._first.size = v["isz"]
    elif kind == "modules":
        o.preferred_addr = v["pa"]
        o.rebase_delta = v["rd"]
    elif kind == "irs":
        o.version = v["ver"]
        n = o._n
        edges = []
        if v["e1"]:
            edges.append(gtirb.Edge(n[0] if v["e1"] == 1 else n[1], n[1], _label(v["l1"], v["c1"], v["d1"])))
        if v["e2"]:
            edges.append(gtirb.Edge(n[0], n[1], _label(1, False, False)))
            edges.append(gtirb.Edge(n[0], n[1], _label(1, True, False)))
        if order:
            edges.reverse()         # parallel edges enter the two graphs in opposite orders
        for e in edges:
            o.cfg.add(e)
    return o


def canon(kind, v):
    """normal form of the compared content (insensitive to child order, to AuxData values and to unused coordinates)"""
    g = v.get
    if kind == "blocks":
        return (g("kind"), g("uuid")) + ((g("off"), g("size")) if g("kind") != 2 else ()) + ((g("dm"),) if g("kind") == 0 else ())
    if kind == "symbols":
        pay = None
        if g("pk") == 1:
            pay = ("v", g("val"))
        elif g("pk") == 2:
            pay = ("r", g("rk")) + ((g("val"),) if g("rk") != 2 else ())
        return (g("uuid"), g("name"), g("at_end"), pay)
    if kind == "exprs":
        if g("kind") == 0:
            return (0, g("off"), g("s1"), g("sname"), g("amask"))
        return (1, g("off"), g("scale"), g("s1"), g("sname"), g("s2"), g("amask"))
    if kind == "intervals":
        blk = (g("nblk"),) + ((g("bk"), g("boff")) if g("nblk") >= 1 else ())
        return (g("uuid"), g("addr"), g("size"), g("clen"), g("c0") if g("clen") >= 1 else None, blk, {3: 1}.get(g("nexp"), g("nexp")))   # Symbol.deep_eq does not look at the owner
    if kind == "sections":
        return (g("uuid"), g("name"), g("fmask"), g("nbi"), g("isz") if g("nbi") >= 1 else None)
    if kind == "modules":
        w, val = g("which"), g("val")
        attr = (w, [val, val, (val * 5) % len(ISAS), (val * 4) % len(FFS), val % len(BOS)][w])
        if (w == 1 and val == 0) or (w >= 2 and attr[1] == 0):
            attr = ("default",)                      # the perturbed attribute sits at its default value
        elif w == 0:
            attr = (0, NAMES[val])
        kids = KIDS[g("kids")]
        return (g("uuid"), attr, kids, bool(g("ep") and (kids & 1)), g("aux"), g("pa"), g("rd"))
    if kind == "irs":
        edges = set()
        if g("e1"):
            edges.add((0 if g("e1") == 1 else 1, 1, None if g("l1") == 0 else ((g("l1") - 1) % len(ETYPES), g("c1"), g("d1"))))
        if g("e2"):
            edges.add((0, 1, (0, False, False)))
            edges.add((0, 1, (0, True, False)))
        return (g("uuid"), g("nmod"), tuple(sorted(edges, key=str)), AUX3[g("aux")], g("ver"))
    raise AssertionError(kind)


def _canon_eq(kind, p, q):
    a, b = canon(kind, p), canon(kind, q)
    return a == b


def _rng(t, x):
    if t == "u64":
        return 0 <= x < U64
    if t == "i64":
        return -I63 <= x < I63
    if t == "u32":
        return 0 <= x < 2 ** 32
    return True


def _pre(d, s, o, xs, xo):
    """ranges of the coordinates of this shard's kind"""
    kind = SHARD["kind"]
    di = si = 0
    for (name, t) in COORDS[kind]:
        if isinstance(t, int):
            if not (0 <= d[di] < t):
                return False
            di += 1
        elif t in ("u64", "i64", "u32"):
            if not _rng(t, s[si]):
                return False
            si += 1
        elif t == "opt":
            if not (o is None or 0 <= o < U64):
                return False
    j = SHARD["j"]
    if j >= 0:
        t = COORDS[kind][j][1]
        if t in ("u64", "i64", "u32") and not _rng(t, xs):
            return False
        if t == "opt" and not (xo is None or 0 <= xo < U64):
            return False
    return True


def pair(d0: int, d1: int, d2: int, d3: int, d4: int, d5: int, s0: int, s1: int, s2: int, o0: Optional[int], b0: bool, b1: bool,
         xd: int, xs: int, xo: Optional[int], xb: bool) -> bool:
    """
    pre: _pre((d0, d1, d2, d3, d4, d5), (s0, s1, s2), o0, xs, xo)
    pre: 0 <= xd < 8
    post: __return__
    """
    kind = SHARD["kind"]
    j = SHARD["j"]
    d = (d0, d1, d2, d3, d4, d5)
    sc = (s0, s1, s2)
    bs = (b0, b1)
    p = {}
    di = si = bi = 0
    fixed = SHARD.get("fix", {})
    for (name, t) in COORDS[kind]:
        if isinstance(t, int):
            p[name] = fixed[name] if name in fixed else pick(d[di], t)
            di += 1
        elif t in ("u64", "i64", "u32"):
            p[name] = sc[si]
            si += 1
        elif t == "opt":
            p[name] = o0
        else:
            p[name] = bs[bi]
            bi += 1
    q = dict(p)
    if j >= 0:
        name, t = COORDS[kind][j]
        if isinstance(t, int):
            q[name] = pick(xd, t)
        elif t in ("u64", "i64", "u32"):
            q[name] = xs
        elif t == "opt":
            q[name] = xo
        else:
            q[name] = xb
    A = build(kind, p, 0)
    B = build(kind, q, 1 - SHARD.get("same_order", 0))
    return _verdict(A, B, _canon_eq(kind, p, q), "%s perturbing %s" % (kind, COORDS[kind][j][0] if j >= 0 else "nothing"))


def cross_kind(ka: int, kb: int) -> bool:
    """
    pre: 0 <= ka < 9 and 0 <= kb < 9
    post: __return__
    """
    # nodes of different kinds sharing one UUID are never deep_eq, in either direction
    a, b = pick(ka, 9), pick(kb, 9)
    with untraced():
        def mk(k):
            u = U(1)
            return [lambda: gtirb.IR(uuid=u), lambda: gtirb.Module(name="", uuid=u), lambda: gtirb.Section(name="", uuid=u),
                    lambda: gtirb.ByteInterval(uuid=u), lambda: gtirb.CodeBlock(uuid=u), lambda: gtirb.DataBlock(uuid=u),
                    lambda: gtirb.ProxyBlock(uuid=u), lambda: gtirb.Symbol("", uuid=u), lambda: gtirb.CFG()][k]()
        A, B = mk(a), mk(b)
        ab, ba = A.deep_eq(B), B.deep_eq(A)
    if ab != ba:
        return fail("kinds %d/%d: deep_eq not symmetric" % (a, b))
    if ab != (a == b):
        return fail("kinds %d/%d: deep_eq=%s" % (a, b, ab))
    return done()


ASSUMPTIONS = [
    "children are inserted in opposite orders on the two sides; under the solver node sets iterate in insertion order (E9), in replays they are real sets",
    "AuxData values are deliberately different on the two sides (only key sets are compared, as IR/Module.deep_eq document)",
    "side B equals side A except for ONE coordinate, which is free (equal or different): single-field perturbations, as the property's quantifier states",
]
OUTSIDE = ("more than two children per parent; contents longer than 2 bytes; simultaneous perturbation of several coordinates; whole IRs with every level symbolic at once "
           "(composition is through the per-kind deep_eq calls)")
BOUNDS = {
    "all": "per kind a vector p (scalars symbolic over their full ranges; discrete coordinates at slice values except the perturbed one and a rotating partner, which take all values) "
           "and q = p with one coordinate free (equal or different), for every coordinate: "
           + "; ".join("%s(%s)" % (k, ", ".join(n for n, _t in v)) for k, v in COORDS.items()) + "; cross-kind pairs with one UUID",
}
REPLAY_ATTEMPTS = 5


# The base vector is explored in slices: all discrete coordinates sit at a slice's values except the perturbed
# coordinate and one rotating partner coordinate, which range over all their values (pairwise coverage with the
# perturbed coordinate); the scalar coordinates are always symbolic over their full ranges.
SLICES = {
    "blocks": [{"kind": 0, "uuid": 0, "dm": 1}, {"kind": 1, "uuid": 1, "dm": 0}],
    "symbols": [{"uuid": 0, "name": 1, "pk": 2, "rk": 0}, {"uuid": 1, "name": 0, "pk": 1, "rk": 1}],
    "exprs": [{"kind": 1, "s1": 0, "s2": 1, "amask": 5, "sname": 0, "sown": 1}, {"kind": 0, "s1": 1, "s2": 0, "amask": 2, "sname": 1, "sown": 0}],
    "intervals": [{"uuid": 0, "clen": 2, "c0": 1, "nblk": 2, "bk": 0, "nexp": 1}, {"uuid": 1, "clen": 1, "c0": 0, "nblk": 1, "bk": 1, "nexp": 2}],
    "sections": [{"uuid": 0, "name": 1, "fmask": 1, "nbi": 2}, {"uuid": 1, "name": 2, "fmask": 2, "nbi": 1}],
    "modules": [{"uuid": 0, "which": 0, "val": 1, "kids": 3, "ep": 1, "aux": 1}, {"uuid": 1, "which": 2, "val": 2, "kids": 1, "ep": 0, "aux": 3}],
    "irs": [{"uuid": 0, "nmod": 2, "e1": 1, "l1": 1, "e2": 1, "aux": 1}, {"uuid": 1, "nmod": 1, "e1": 2, "l1": 2, "e2": 0, "aux": 2}],
}


def shards(tier):
    out = [{"fn": "cross_kind", "consts": {}, "timeout": 300}]
    for kind, coords in COORDS.items():
        disc = [n for (n, t) in coords if isinstance(t, int)]
        for j in range(-1, len(coords)):
            for si, sl in enumerate(SLICES[kind] if tier != "quick" else SLICES[kind][:1]):
                partners = [disc[(j + 1 + si) % len(disc)]] if tier == "quick" else [disc[(j + 1 + si) % len(disc)], disc[(j + 3 + si) % len(disc)]]
                for partner in partners:
                    fix = dict(sl)
                    fix.pop(partner, None)
                    if j >= 0:
                        fix.pop(coords[j][0], None)
                    out.append({"fn": "pair", "consts": {"kind": kind, "j": j, "fix": fix}, "timeout": 1500,
                                "twin": "first" if j == -1 else False, "cover": "first" if j == 0 else False, "replay_attempts": 5})
    return out
