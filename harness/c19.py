"""C19 - interval byte storage and block views stay consistent (DESIGN 4, C19)."""
from typing import Optional
from uuid import UUID

from hbase import SHARD, count, done, fail, pick, untraced, U64

import gtirb
from gtirb.proto import ByteInterval_pb2

BASE = [1, 2, 3, 4]


def _u64(x):
    return 0 <= x < U64


def _opt_u64(x):
    return x is None or 0 <= x < U64


def _check(bi, m_size, m_bytes, where):
    """statement's equations against the model (m_size, m_bytes)"""
    if bi.size != m_size:
        return "%s: size is not the assigned value" % where
    if bi.initialized_size != len(bi.contents):
        return "%s: initialized_size != number of stored bytes" % where
    if len(bi.contents) != len(m_bytes):
        return "%s: stored byte count %d, expected %d (size=%s)" % (where, len(bi.contents), len(m_bytes), m_size)
    if len(bi.contents) > bi.size:
        return "%s: stored bytes exceed size" % where
    for i in range(len(m_bytes)):
        if bi.contents[i] != m_bytes[i]:
            return "%s: byte %d changed" % (where, i)
    return None


def size_seq(a: int, b: int, c: int) -> bool:
    """
    pre: _u64(a) and _u64(b) and _u64(c)
    post: __return__
    """
    # SHARD: L = initial stored bytes, extra = initial size - L, ops = string over s(ize) i(nit) c(ontents)
    L = SHARD["L"]
    ops = SHARD["ops"]
    vals = [a, b, c]
    ir = gtirb.IR(uuid=UUID(int=1))
    m = gtirb.Module(name="m", uuid=UUID(int=2), ir=ir)
    s = gtirb.Section(name="s", uuid=UUID(int=3), module=m)
    bi = gtirb.ByteInterval(size=L + SHARD["extra"], contents=bytes(BASE[:L]), uuid=UUID(int=4), section=s)
    m_size = L + SHARD["extra"]
    m_bytes = list(BASE[:L])
    why = _check(bi, m_size, m_bytes, "after construction")
    if why:
        return fail(why)
    for k, op in enumerate(ops):
        v = vals[k]
        if op == "s":
            bi.size = v
            m_size = v
            if v < len(m_bytes):
                m_bytes = m_bytes[:v]          # doc/general/ByteInterval.md: contents must be truncated
        elif op == "i":
            # the property's precondition: initialized_size not above size; bounded because padding materialises bytes
            if not (v <= m_size and v <= 6):
                return done()
            bi.initialized_size = v
            if v <= len(m_bytes):
                m_bytes = m_bytes[:v]
            else:
                m_bytes = m_bytes + [0] * (v - len(m_bytes))
        elif op == "b":
            # content edit with an immutable bytes object (only when it fits)
            n = k + 2
            if not (n <= m_size):
                return done()
            bi.contents = bytes([7] * n)
            m_bytes = [7] * n
        elif op == "C":
            # content edit that leaves MORE stored bytes than size (the caller's doing); the next size assignment below the
            # stored count must truncate, whatever the previous size was
            nxt = ops[k + 1] if k + 1 < len(ops) else None
            if nxt != "s":
                return done()
            bi.contents = bytearray([8] * 5)
            m_bytes = [8] * 5
            continue
        else:
            # content edit: replace the stored bytes by k+1 bytes of value 9 (only when that fits the size)
            n = k + 1
            if not (n <= m_size):
                return done()
            bi.contents = bytearray([9] * n)
            m_bytes = [9] * n
        why = _check(bi, m_size, m_bytes, "after step %d (%s)" % (k, op))
        if why:
            return fail(why)
    # the interval can be saved and loaded back (message level, pure-Python backend under the solver)
    msg = ir._to_protobuf()
    ir2 = gtirb.IR._from_protobuf(msg, None)
    bi2 = ir2.get_by_uuid(UUID(int=4))
    if not isinstance(bi2, gtirb.ByteInterval):
        return fail("interval lost in save/load")
    why = _check(bi2, m_size, m_bytes, "after save/load")
    if why:
        return fail(why)
    return done()


def ctor(size: Optional[int], init: Optional[int]) -> bool:
    """
    pre: _opt_u64(size)
    pre: init is None or 0 <= init <= 6
    post: __return__
    """
    L = SHARD["L"]
    try:
        bi = gtirb.ByteInterval(size=size, initialized_size=init, contents=bytes(BASE[:L]))
    except ValueError:
        # rejection is only legitimate when more bytes would be stored than the size allows
        stored = L if init is None else init
        sz = L if size is None else size
        if stored > sz:
            return done()
        return fail("constructor rejected a consistent interval")
    stored = L if init is None else init
    sz = L if size is None else size
    if stored > sz:
        return fail("constructor accepted more stored bytes than size")
    if not (bi.size == sz and bi.initialized_size == stored and len(bi.contents) == stored):
        return fail("constructor: size/initialized_size/contents disagree")
    for i in range(stored):
        if bi.contents[i] != (BASE[i] if i < L else 0):
            return fail("constructor: byte %d" % i)
    return done()


def ctor_alias(grow: int) -> bool:
    """
    pre: 0 <= grow < 5
    post: __return__
    """
    # contents handed over as a bytearray (e.g. another interval's) are copied: later edits of the source do not show
    g = pick(grow, 5)
    with untraced():
        orig = gtirb.ByteInterval(size=8, contents=b"\x01\x02\x03\x04", uuid=UUID(int=4))
        dup = gtirb.ByteInterval(size=4, contents=orig.contents, uuid=UUID(int=5))
        buf = bytearray(b"\x09\x09")
        third = gtirb.ByteInterval(size=2, contents=buf, uuid=UUID(int=6))
        if g == 0:
            orig.initialized_size = 8
        elif g == 1:
            orig.contents += b"\x07"
        elif g == 2:
            orig.contents[0] = 0x55
        elif g == 3:
            buf += b"\x01\x02\x03"
        else:
            buf[1] = 0
        ok = bytes(dup.contents) == b"\x01\x02\x03\x04" and dup.initialized_size == 4 and len(dup.contents) <= dup.size
        ok = ok and bytes(third.contents) == b"\x09\x09" and len(third.contents) <= third.size
        ok = ok and dup.contents is not orig.contents and third.contents is not buf
    if not ok:
        return fail("an interval shares its byte storage with the object it was constructed from (edit %d)" % g)
    return done()


def from_proto(size: int, has_addr: bool, addr: int) -> bool:
    """
    pre: _u64(size) and _u64(addr)
    post: __return__
    """
    L = SHARD["L"]
    ir = gtirb.IR(uuid=UUID(int=1))
    msg = ByteInterval_pb2.ByteInterval()
    msg.uuid = UUID(int=4).bytes
    msg.size = size
    msg.has_address = has_addr
    msg.address = addr
    msg.contents = bytes(BASE[:L])
    try:
        bi = gtirb.ByteInterval._from_protobuf(msg, ir)
    except ValueError:
        if L > size:
            return done()
        return fail("loader rejected an interval whose bytes fit its size")
    if L > size:
        return fail("loader accepted more stored bytes than size")
    if not (bi.size == size and bi.initialized_size == L and len(bi.contents) == L):
        return fail("loaded interval inconsistent")
    return done()


def views(ia: Optional[int], off: int, sz: int, x: int) -> bool:
    """
    pre: _opt_u64(ia) and _u64(off) and _u64(sz)
    pre: 0 <= x < 2**65
    post: __return__
    """
    bi = gtirb.ByteInterval(address=ia, size=8, contents=b"\x01\x02\x03", uuid=UUID(int=4))
    b = gtirb.DataBlock(offset=off, size=sz, byte_interval=bi, uuid=UUID(int=5)) if SHARD["kind"] == "data" else \
        gtirb.CodeBlock(offset=off, size=sz, byte_interval=bi, uuid=UUID(int=5))
    if ia is None:
        if b.address is not None:
            return fail("address of a block in an interval without address")
    elif b.address != ia + off:
        return fail("block address is not interval address + offset")
    if b.contains_offset(x) != (off <= x < off + sz):
        return fail("contains_offset")
    if b.contains_address(x) != (ia is not None and off <= x - ia < off + sz):
        return fail("contains_address")
    d = gtirb.DataBlock(offset=off, size=sz, uuid=UUID(int=6))
    if d.address is not None or d.contains_address(x) or len(d.contents) != 0:
        return fail("detached block")
    if d.contains_offset(x) != (off <= x < off + sz):
        return fail("contains_offset (detached)")
    return done()


def view_contents(off: int, sz: int) -> bool:
    """
    pre: 0 <= off <= SHARD["L"] + 2
    pre: 0 <= sz <= SHARD["L"] + 2
    post: __return__
    """
    L = SHARD["L"]
    bi = gtirb.ByteInterval(size=8, contents=bytes(BASE[:L]), uuid=UUID(int=4))
    b = gtirb.DataBlock(offset=off, size=sz, byte_interval=bi, uuid=UUID(int=5))
    got = b.contents
    exp = [BASE[i] for i in range(L) if off <= i < off + sz]
    if len(got) != len(exp):
        return fail("block contents length")
    for i in range(len(exp)):
        if got[i] != exp[i]:
            return fail("block contents byte %d" % i)
    return done()


BOUNDS = {
    "quick": "size values: all of [0, 2^64) (symbolic); initialized_size values <= 6; initial stored bytes 0..3 (concrete values), initial slack 0 or 2; "
             "every assignment sequence of length <= 2 over {size=, initialized_size=, contents=}; block offset/size/probe and interval address over the "
             "full range for address/contains_*; block offset,size <= len+2 for the contents clause",
    "thorough": "as quick with every sequence of length <= 3 and initial stored bytes 0..4",
}
OUTSIDE = ("stored byte *values* are concrete representatives (bytearray is C code and would realise them); initialized_size above 6; "
           "block.contents at offsets beyond len(contents)+2; wire-level serialisation (replay only)")
ASSUMPTIONS = [
    "protobuf pure-Python backend in the symbolic run; upb backend and real wire bytes only in witness replay",
    "preconditions: initialized_size assignments not above size, content edits not longer than size (the property's own)",
]
REPLAY_BACKENDS = [None, "python"]


def shards(tier):
    import itertools

    K = 2 if tier == "quick" else 3
    Ls = [0, 1, 3] if tier == "quick" else [0, 1, 2, 3, 4]
    out = []
    for L in Ls:
        for extra in (0, 2):
            for k in range(1, K + 1):
                for ops in list(itertools.product("sic", repeat=k)) + ([("C", "s"), ("b", "s"), ("b", "i")] if k == 2 else []) + ([("s", "C", "s"), ("C", "s", "i")] if k == 3 else []):
                    out.append({"fn": "size_seq", "consts": {"L": L, "extra": extra, "ops": "".join(ops)}, "timeout": 600,
                                "twin": "first", "cover": "first"})
        out.append({"fn": "ctor", "consts": {"L": L}, "timeout": 300})
        out.append({"fn": "from_proto", "consts": {"L": L}, "timeout": 300})
        out.append({"fn": "view_contents", "consts": {"L": L}, "timeout": 300})
    out.append({"fn": "ctor_alias", "consts": {}, "timeout": 300, "cover": False})
    out.append({"fn": "views", "consts": {"kind": "data"}, "timeout": 300})
    out.append({"fn": "views", "consts": {"kind": "code"}, "timeout": 300})
    return out
