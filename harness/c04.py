"""C04 - containment is a forest kept consistent from both ends (DESIGN 4, C03/C04)."""
from forest_h import *  # noqa: F401,F403
import forest_h as F

ASSUMPTIONS = [
    "structure-only: after the choice integers are decoded (comparison chain) the scenario is concrete; construction, operation and oracle run with tracing "
    "suspended, CrossHair exhausts the path tree over the choices (bounded-exhaustive; the solver does path bookkeeping, not arithmetic)",
    "inside gtirb the name `set` denotes an insertion-ordered set (E9/E9b) during exploration; real sets in every replay",
    "induction: the invariant (forest consistency + cache = reachable set) is the only state the mutators read, so one arbitrary operation from an arbitrary "
    "invariant-satisfying pre-state extends to histories of any length; set iteration order and pending index events are outside this argument",
]
OUTSIDE = ("pools larger than stated; two operations in sequence beyond the thorough tier; more than two candidate parents; equal-UUID twins beyond the load/twin family")
BOUNDS = {
    "quick": "per relation (IR-module, module-section, module-symbol, module-proxy, section-interval, interval-block): every pre-state shape "
             "(child attachment 3x3, upward connection of both candidate parents incl. detached chains and two IRs; module list: 3 modules x 3 owners x 2 orders) "
             "x every operation of the relation's alphabet (child-side assignment, add/discard/remove/pop/clear/update(1,2 iterables)/|= -= &= ^=, constructors with "
             "parent= and children=; list: append/insert/extend/+=/del/slice del/item and slice assignment/remove/pop/reverse/clear) = 23 841 scenarios; "
             "equal-UUID twin IRs; argument aliasing; K = 2 slices: (module list) an inserting operation then any operation; (set relations) a parent-side insertion "
             "(add, |=, update, ^=) then any operation, from 9 pre-state shapes; cross-relation sequences: one of 22 subtree moves at any level, "
             "then one (thorough: two) of 20 attach/detach operations below it, on a fixed two-IR world",
    "thorough": "as quick plus every pair of operations (K = 2) for the set relations on a reduced shape set",
}


def _step_shards(which, tier):
    out = []
    for rel in F.RELS:
        n = F.n_ops(rel)
        chunk = 12 if rel != "ir_mod" else 30
        for lo in range(0, n, chunk):
            out.append({"fn": "step", "consts": {"rel": rel, "which": which, "op_lo": lo, "nops": min(chunk, n - lo)}, "timeout": 1200,
                        "twin": "first", "cover": "first"})
    return out


def shards(tier):
    return _step_shards("C04", tier) + F.extra_shards("C04", tier)
