"""Decide one property: stage /repo's working tree, run every shard of the property's
harness symbolically (CrossHair + z3), replay counterexamples and path witnesses against
the real code with every stub off, write evidence/<id>.json.

usage: check.py <ID> quick|thorough [--only FN] [--jobs N]
       check.py --replay evidence/replay/<file>.json

exit 0: every shard CONFIRMED, every twin REFUTED, every witness agreed
exit 1: a reproduced violation that known_findings.json does not list (VIOLATION line printed)
exit 2: build failure / inconclusive shard / vacuous harness / non-reproducing counterexample
"""
import argparse
import concurrent.futures
import importlib
import json
import os
import shutil
import subprocess
import sys
import tempfile
import time

VERIF = os.path.dirname(os.path.dirname(os.path.abspath(__file__)))
REPO = os.environ.get("VERIF_REPO", "/repo")
PY = os.path.join(VERIF, ".venv", "bin", "python")
RUNNER = os.path.join(VERIF, "tools", "runner.py")


def log(*a):
    print(*a, flush=True)


def env_for(stage, concrete=False, profile=False, backend=None):
    e = dict(os.environ)
    e["PYTHONPATH"] = os.pathsep.join([stage, os.path.join(VERIF, "harness"), os.path.join(VERIF, "tools")])
    e["VERIF_STAGE"] = stage
    e["PYTHONHASHSEED"] = "0"
    e["PYTHONDONTWRITEBYTECODE"] = "1"
    e.pop("VERIF_CONCRETE", None)
    e.pop("VERIF_PROFILE", None)
    if concrete:
        e["VERIF_CONCRETE"] = "1"
        if backend:
            e["PROTOCOL_BUFFERS_PYTHON_IMPLEMENTATION"] = backend
        else:
            e.pop("PROTOCOL_BUFFERS_PYTHON_IMPLEMENTATION", None)
        if profile:
            e["VERIF_PROFILE"] = "1"
    else:
        e["PROTOCOL_BUFFERS_PYTHON_IMPLEMENTATION"] = "python"
    return e


def run_runner(stage, args, timeout, concrete=False, profile=False, backend=None, stdin=None):
    cmd = [PY, RUNNER] + args
    t0 = time.time()
    try:
        p = subprocess.run(
            cmd,
            env=env_for(stage, concrete, profile, backend),
            capture_output=True,
            text=True,
            timeout=timeout,
            input=stdin,
            cwd=VERIF,
        )
    except subprocess.TimeoutExpired:
        return {"verdict": "TIMEOUT", "error": "outer timeout %ss" % timeout, "wall": round(time.time() - t0, 1)}
    for line in reversed(p.stdout.splitlines()):
        if line.startswith("@@RESULT@@"):
            r = json.loads(line[len("@@RESULT@@"):])
            return r
    return {
        "verdict": "ERROR",
        "error": "runner produced no result (rc=%s)" % p.returncode,
        "stderr": p.stderr[-2000:],
        "stdout": p.stdout[-1000:],
        "wall": round(time.time() - t0, 1),
    }


def shard_name(s):
    c = ",".join("%s=%s" % (k, s["consts"][k]) for k in sorted(s.get("consts", {})))
    return "%s[%s]" % (s["fn"], c)


def do_shard(stage, hmod, s, seed):
    """sym run (+ replay of counterexample).  Returns result dict."""
    to = float(s.get("timeout", 300))
    args = [
        "--harness", hmod, "--fn", s["fn"], "--consts", json.dumps(s.get("consts", {})),
        "--mode", "sym", "--timeout", str(to), "--path-timeout", str(s.get("path_timeout", 120)),
        "--seed", str(seed),
    ]
    r = run_runner(stage, args, to + 120)
    r["shard"] = shard_name(s)
    if r.get("verdict") == "REFUTED":
        if "cex" in r:
            rr = do_replay(stage, hmod, s, r["cex"], attempts=int(s.get("replay_attempts", 1)))
            r["replay"] = rr
        else:
            r["replay"] = {"reproduced": False, "why": "counterexample arguments could not be parsed: %s" % r.get("cex_error", "")}
    return r


def do_replay(stage, hmod, s, cex, attempts=1, backend=None):
    last = None
    for k in range(max(1, attempts)):
        consts = dict(s.get("consts", {}))
        if attempts > 1:
            consts["_replay_attempt"] = k
        args = [
            "--harness", hmod, "--fn", s["fn"], "--consts", json.dumps(consts),
            "--mode", "replay", "--args", json.dumps(cex),
        ]
        r = run_runner(stage, args, float(s.get("replay_timeout", 120)), concrete=True, backend=backend)
        last = r
        if r.get("verdict") == "TIMEOUT":
            r["reproduced"] = bool(s.get("hang_is_violation", False))
            r["why"] = "concrete replay did not return within the wall-clock limit"
            if r["reproduced"]:
                return r
            continue
        if "error" in r:
            r["reproduced"] = False
            r["why"] = "replay runner error: " + r["error"]
            continue
        if r.get("returned") is False:
            r["reproduced"] = True
            r["why"] = "; ".join(r.get("fail_reasons", [])) or "postcondition false"
            return r
        if r.get("exception") and not r.get("exception_allowed"):
            r["reproduced"] = True
            r["why"] = "undeclared exception " + r["exception"]
            return r
        r["reproduced"] = False
        r["why"] = "concrete run satisfied the postcondition"
    return last


def do_twin(stage, hmod, s, seed):
    to = float(s.get("twin_timeout", min(float(s.get("timeout", 300)), 240)))
    args = [
        "--harness", hmod, "--fn", s["fn"], "--consts", json.dumps(s.get("consts", {})),
        "--mode", "twin", "--timeout", str(to), "--path-timeout", str(s.get("path_timeout", 120)),
        "--seed", str(seed),
    ]
    r = run_runner(stage, args, to + 120)
    r["shard"] = shard_name(s)
    return r


def do_cover(stage, hmod, s, budget, maxw, backends):
    args = [
        "--harness", hmod, "--fn", s["fn"], "--consts", json.dumps(s.get("consts", {})),
        "--mode", "cover", "--timeout", str(budget), "--path-timeout", "30", "--max-witnesses", str(maxw),
    ]
    r = run_runner(stage, args, budget + 120)
    r["shard"] = shard_name(s)
    wit = r.get("witnesses") or []
    res = {"shard": r["shard"], "witnesses": len(wit), "agreed": 0, "skipped_pre": 0, "disagreements": [], "functions": [], "cover_error": r.get("error")}
    if not wit:
        return res
    for backend in backends:
        args = [
            "--harness", hmod, "--fn", s["fn"], "--consts", json.dumps(s.get("consts", {})),
            "--mode", "replay-batch",
        ]
        rr = run_runner(stage, args, 300, concrete=True, profile=True, backend=backend, stdin=json.dumps(wit))
        if "error" in rr:
            res["disagreements"].append({"backend": backend or "upb", "error": rr["error"], "trace": rr.get("trace", "")[-800:]})
            continue
        res["agreed"] += rr.get("agreed", 0)
        res["skipped_pre"] += rr.get("skipped_pre", 0)
        for d in rr.get("disagreements", []):
            d["backend"] = backend or "default"
            res["disagreements"].append(d)
        res["functions"] = sorted(set(res["functions"]) | set(rr.get("functions", [])))
        if rr.get("samples"):
            res.setdefault("samples", rr["samples"][:3])
    return res


def load_known():
    try:
        return json.load(open(os.path.join(VERIF, "known_findings.json")))
    except Exception:
        return {"findings": []}


def main():
    ap = argparse.ArgumentParser()
    ap.add_argument("prop", nargs="?")
    ap.add_argument("tier", nargs="?", default=os.environ.get("VERIF_TIER", "quick"))
    ap.add_argument("--only", default=None)
    ap.add_argument("--jobs", type=int, default=int(os.environ.get("VERIF_JOBS", "16")))
    ap.add_argument("--replay", default=None)
    ap.add_argument("--no-cover", action="store_true")
    ap.add_argument("--no-evidence", action="store_true")
    a = ap.parse_args()
    seed = int(os.environ.get("VERIF_SEED", "0") or 0)
    t0 = time.time()

    tmpbase = os.environ.get("TMPDIR") or tempfile.gettempdir()
    stage = tempfile.mkdtemp(prefix="gtirb-verif-stage-", dir=tmpbase)
    rc = 2
    try:
        sys.path.insert(0, os.path.join(VERIF, "tools"))
        import stage as stage_mod

        try:
            info = stage_mod.stage(REPO, stage)
        except Exception as e:  # noqa: BLE001
            log("BUILD-FAILURE: staging %s failed: %r" % (REPO, e))
            return 2

        if a.replay:
            rp = json.load(open(a.replay))
            s = {"fn": rp["fn"], "consts": rp.get("consts", {})}
            rr = do_replay(stage, rp["harness"], s, rp["args"], attempts=rp.get("attempts", 1))
            log(json.dumps({k: rr.get(k) for k in ("reproduced", "why", "returned", "exception", "fail_reasons")}, indent=1))
            if rr.get("reproduced"):
                log("VIOLATION property=%s replay=%s" % (rp["property"], a.replay))
                return 1
            return 0

        prop = a.prop.upper()
        tier = a.tier
        hmod = prop.lower()
        # import the harness module concretely to read its shard table
        os.environ["VERIF_CONCRETE"] = "1"
        os.environ["VERIF_STAGE"] = stage
        sys.path[:0] = [stage, os.path.join(VERIF, "harness")]
        try:
            H = importlib.import_module(hmod)
            import gtirb

            assert os.path.abspath(gtirb.__file__).startswith(os.path.abspath(stage)), gtirb.__file__
        except Exception as e:  # noqa: BLE001
            import traceback

            traceback.print_exc()
            log("BUILD-FAILURE: cannot import staged gtirb / harness %s: %r" % (hmod, e))
            return 2
        shards = H.shards(tier)
        if tier == "quick":
            # quick tier: no shard may run longer than 7 minutes (a changed tree can make every shard slow)
            for s_ in shards:
                s_["timeout"] = min(float(s_.get("timeout", 300)), 420.0)
        if a.only:
            shards = [s for s in shards if a.only in shard_name(s)]
        shards.sort(key=lambda s: -float(s.get("timeout", 300)))
        log("%s %s: %d shards, stage=%s (%s)" % (prop, tier, len(shards), stage, info))

        results, twins, covers = [], [], []
        with concurrent.futures.ThreadPoolExecutor(max_workers=a.jobs) as ex:
            futs = {}
            for s in shards:
                futs[ex.submit(do_shard, stage, hmod, s, seed)] = ("sym", s)
            seen_fn = set()
            for s in shards:
                want = s.get("twin", "first")
                if want is False:
                    continue
                if want == "first" and s["fn"] in seen_fn:
                    continue
                seen_fn.add(s["fn"])
                futs[ex.submit(do_twin, stage, hmod, s, seed)] = ("twin", s)
            if not a.no_cover:
                seen_fn = set()
                budget = float(getattr(H, "COVER_BUDGET", {}).get(tier, 25 if tier == "quick" else 60))
                maxw = int(getattr(H, "COVER_MAX", {}).get(tier, 25 if tier == "quick" else 60))
                backends = getattr(H, "REPLAY_BACKENDS", [None])
                for s in shards:
                    want = s.get("cover", "first")
                    if want is False:
                        continue
                    if want == "first" and s["fn"] in seen_fn:
                        continue
                    seen_fn.add(s["fn"])
                    futs[ex.submit(do_cover, stage, hmod, s, budget, maxw, backends)] = ("cover", s)
            for f in concurrent.futures.as_completed(futs):
                kind, s = futs[f]
                try:
                    r = f.result()
                except Exception as e:  # noqa: BLE001
                    r = {"verdict": "ERROR", "error": repr(e), "shard": shard_name(s)}
                if kind == "sym":
                    results.append(r)
                    log("  [sym  ] %-60s %-12s paths=%s wall=%s" % (r["shard"], r.get("verdict"), r.get("paths"), r.get("wall")))
                elif kind == "twin":
                    twins.append(r)
                    log("  [twin ] %-60s %-12s wall=%s" % (r["shard"], r.get("verdict"), r.get("wall")))
                else:
                    covers.append(r)
                    log("  [cover] %-60s witnesses=%s agreed=%s disagreements=%s" % (r["shard"], r.get("witnesses"), r.get("agreed"), len(r.get("disagreements", []))))

        # ---- verdict ---------------------------------------------------
        violations, harness_errors, known_lines = [], [], []
        os.makedirs(os.path.join(VERIF, "evidence", "replay"), exist_ok=True)
        n = 0
        for r in results:
            v = r.get("verdict")
            for h in r.get("known_hits", []):
                known_lines.append((h[0], h[1]))
            if v == "CONFIRMED":
                continue
            if v == "REFUTED":
                rp = r.get("replay", {})
                if rp.get("reproduced"):
                    n += 1
                    path = os.path.join("evidence", "replay", "%s-%s-%d.json" % (prop, r["fn"], n))
                    json.dump(
                        {"property": prop, "harness": hmod, "fn": r["fn"], "consts": r.get("consts", {}), "args": r["cex"],
                         "why": rp.get("why"), "message": r.get("cex_message"), "tier": tier},
                        open(os.path.join(VERIF, path), "w"), indent=1)
                    violations.append((r, path))
                else:
                    harness_errors.append("%s: counterexample did not reproduce (%s): %s" % (r["shard"], rp.get("why"), r.get("cex_message", "")[:300]))
            else:
                harness_errors.append("%s: %s %s" % (r["shard"], v, (r.get("error") or json.dumps(r.get("messages", ""))[:300])))
        for r in twins:
            if r.get("verdict") != "REFUTED":
                harness_errors.append("twin %s: %s (vacuous harness?) %s" % (r["shard"], r.get("verdict"), r.get("error", "")))
        nwit = 0
        funcs = set()
        for c in covers:
            nwit += c.get("agreed", 0)
            funcs |= set(c.get("functions", []))
            for d in c.get("disagreements", []):
                harness_errors.append("witness replay %s: %s" % (c["shard"], json.dumps(d)[:600]))

        kf = load_known()
        seen = set()
        for (p, sig) in known_lines:
            if (p, sig) in seen:
                continue
            seen.add((p, sig))
            desc = ""
            for e in kf.get("findings", []):
                if e.get("property") == p and e.get("signature") == sig:
                    desc = e.get("what", "")
            if p == prop:
                log("KNOWN-FINDING: property=%s %s [%s]" % (p, desc, sig))

        if not a.no_evidence:
            write_evidence(H, prop, tier, seed, results, twins, covers, violations, harness_errors, funcs, nwit, time.time() - t0, info, sorted(seen))

        for r, path in violations:
            log("  counterexample %s: %s" % (r["shard"], r.get("replay", {}).get("why")))
            log("VIOLATION property=%s replay=%s" % (prop, path))
        for h in harness_errors:
            log("HARNESS-ERROR/INCONCLUSIVE: " + h)
        if violations:
            rc = 1
        elif harness_errors:
            rc = 2
        else:
            rc = 0
        log("%s %s: %d shards confirmed=%d refuted=%d other=%d twins=%d witnesses=%d wall=%.1fs -> exit %d" % (
            prop, tier, len(results), sum(1 for r in results if r.get("verdict") == "CONFIRMED"),
            sum(1 for r in results if r.get("verdict") == "REFUTED"),
            sum(1 for r in results if r.get("verdict") not in ("CONFIRMED", "REFUTED")),
            len(twins), nwit, time.time() - t0, rc))
        return rc
    finally:
        shutil.rmtree(stage, ignore_errors=True)


def write_evidence(H, prop, tier, seed, results, twins, covers, violations, harness_errors, funcs, nwit, wall, info, known_seen):
    paths = sum(int(r.get("paths") or 0) for r in results)
    zc = sum(int(r.get("z3_checks") or 0) for r in results)
    zt = sum(float(r.get("z3_time") or 0) for r in results)
    samples = []
    for r in results[:6]:
        samples.append({"shard": r.get("shard"), "verdict": r.get("verdict"), "paths": r.get("paths"),
                        "z3_checks": r.get("z3_checks"), "wall_s": r.get("wall"), "counters": r.get("counters")})
    for c in covers:
        for smp in c.get("samples", [])[:2]:
            samples.append({"witness_of": c["shard"], "args": smp})
    for t in twins[:3]:
        samples.append({"twin": t.get("shard"), "verdict": t.get("verdict"), "reachability_model": (t.get("cex_message") or "")[:200]})
    patches = sorted({p for r in results for p in r.get("patches", [])})
    counters = {}
    for r in results:
        for k, v in (r.get("counters") or {}).items():
            counters[k] = counters.get(k, 0) + v
    ev = {
        "property_id": prop,
        "tier": tier,
        "seed": seed,
        "level": "model_checking",
        "coverage": {
            "states": max(paths, 1) if results else 0,
            "transitions": max(zc, 1) if results else 0,
            "traces_validated_against_impl": nwit,
            "samples": samples or [{"note": "no shard ran"}],
            "explanation": "bounded symbolic model checking: states = execution paths of harness+gtirb explored by CrossHair, "
                           "each decided by z3 over all values of the symbolic inputs; transitions = z3 satisfiability queries",
            "conditions_total": len(results),
            "conditions_confirmed": sum(1 for r in results if r.get("verdict") == "CONFIRMED"),
            "conditions_refuted": sum(1 for r in results if r.get("verdict") == "REFUTED"),
            "conditions_inconclusive": sum(1 for r in results if r.get("verdict") not in ("CONFIRMED", "REFUTED")),
            "reachability_twins_refuted": sum(1 for t in twins if t.get("verdict") == "REFUTED"),
            "reachability_twins_total": len(twins),
            "solver": "z3 (via crosshair-tool 0.0.110)",
            "solver_queries": zc,
            "solver_time_s": round(zt, 2),
            "functions_encoded": sorted(funcs),
            "bounds": getattr(H, "BOUNDS", {}).get(tier, getattr(H, "BOUNDS", {}).get("all", "")),
            "outside_bounds": getattr(H, "OUTSIDE", ""),
            "harness_counters": counters,
            "shards": [{"shard": r.get("shard"), "verdict": r.get("verdict"), "paths": r.get("paths"), "wall_s": r.get("wall"), "z3_checks": r.get("z3_checks"), "z3_time_s": r.get("z3_time")} for r in sorted(results, key=lambda r: str(r.get("shard")))],
            "known_findings_met": [list(k) for k in known_seen],
            "inconclusive_or_harness_errors": harness_errors[:20],
            "staged_from": REPO,
            "stage_info": info,
            "exhaustive": False,
        },
        "assumptions": list(getattr(H, "ASSUMPTIONS", [])) + ["engine adjustments active: " + ",".join(patches)],
        "wall_s": round(wall, 1),
        "violations": len(violations),
    }
    os.makedirs(os.path.join(VERIF, "evidence"), exist_ok=True)
    json.dump(ev, open(os.path.join(VERIF, "evidence", prop + ".json"), "w"), indent=1)


if __name__ == "__main__":
    sys.exit(main())
