"""Confirm a seeded change and run checks against it (development aid; not part of any registered check).

usage: seedcheck.py <PROP> <seed_dir> <name> [--props C01,C02] [--tier quick]

<seed_dir> holds patch.diff, demo.py, notes.md (as produced by a sub-agent).
 1. in a scratch worktree of /repo (removed afterwards): the demo exits 0 on the unchanged tree, exits non-zero
    with the patch applied, and the repository's own python/tests pass against the staged patched tree;
    the pinned baseline command passes too (it imports the installed wheel, so it cannot see the change);
 2. `git -C /repo apply patch.diff`, run the property's check(s), `git -C /repo checkout -- .`;
 3. copy patch.diff / demo.py / notes.md to /verif/seeded/<name>/ and write meta.json.
"""
import argparse
import json
import os
import shutil
import subprocess
import sys
import tempfile
import time

VERIF = os.path.dirname(os.path.dirname(os.path.abspath(__file__)))


def sh(cmd, **kw):
    return subprocess.run(cmd, shell=True, capture_output=True, text=True, **kw)


def main():
    ap = argparse.ArgumentParser()
    ap.add_argument("prop")
    ap.add_argument("seed_dir")
    ap.add_argument("name")
    ap.add_argument("--props", default=None)
    ap.add_argument("--tier", default="quick")
    ap.add_argument("--keep", action="store_true")
    ap.add_argument("--only", default=None, help="restrict the check to shards whose name contains this text (when the full tier would not finish on the changed tree)")
    ap.add_argument("--inplace", action="store_true", help="apply the patch to /repo itself (git apply / git checkout), as the final confirmation does")
    a = ap.parse_args()
    patch = os.path.join(a.seed_dir, "patch.diff")
    demo = os.path.join(a.seed_dir, "demo.py")
    meta = {"property": a.prop, "name": a.name, "ran": []}
    if a.inplace:
        st = sh("git -C /repo status --short")
        assert st.stdout.strip() == "", "/repo has uncommitted changes: " + st.stdout

    wt = tempfile.mkdtemp(prefix="seedwt-")
    os.rmdir(wt)
    try:
        assert sh("git -C /repo worktree add -q --detach %s HEAD" % wt).returncode == 0
        stage_a = tempfile.mkdtemp(prefix="seedst-")
        r = sh("/venv/bin/python %s/tools/stage.py %s %s" % (VERIF, wt, stage_a))
        assert r.returncode == 0, r.stderr
        d0 = sh("PYTHONPATH=%s timeout 300 /venv/bin/python %s" % (stage_a, demo))
        meta["demo_clean_exit"] = d0.returncode
        ap_ = sh("git -C %s apply %s" % (wt, os.path.abspath(patch)))
        meta["patch_applies"] = ap_.returncode == 0
        if ap_.returncode != 0:
            meta["error"] = ap_.stderr[-500:]
        else:
            shutil.rmtree(stage_a)
            os.makedirs(stage_a)
            r = sh("/venv/bin/python %s/tools/stage.py %s %s" % (VERIF, wt, stage_a))
            meta["stages_with_patch"] = r.returncode == 0
            d1 = sh("PYTHONPATH=%s timeout 300 /venv/bin/python %s" % (stage_a, demo))
            meta["demo_patched_exit"] = d1.returncode
            meta["demo_patched_output"] = (d1.stdout + d1.stderr)[-600:]
            t = sh("cd %s && PYTHONPATH=%s /venv/bin/python -m pytest -q -p no:cacheprovider python/tests 2>&1 | tail -1" % (wt, stage_a))
            meta["repo_tests_on_patched_stage"] = t.stdout.strip()
            b = sh("cd %s && /venv/bin/python -m pytest -q -p no:cacheprovider --timeout=900 2>&1 | tail -1" % wt)
            meta["baseline_cmd_in_patched_tree"] = b.stdout.strip()
        shutil.rmtree(stage_a, ignore_errors=True)
    finally:
        sh("git -C /repo worktree remove --force %s" % wt)
        shutil.rmtree(wt, ignore_errors=True)
    meta["confirmed"] = bool(meta.get("patch_applies") and meta.get("demo_clean_exit") == 0 and meta.get("demo_patched_exit") not in (0, None)
                             and "passed" in meta.get("repo_tests_on_patched_stage", "") and "failed" not in meta.get("repo_tests_on_patched_stage", ""))
    print("confirmed:", meta["confirmed"], {k: meta.get(k) for k in ("demo_clean_exit", "demo_patched_exit", "repo_tests_on_patched_stage", "baseline_cmd_in_patched_tree")})

    if meta["confirmed"]:
        props = (a.props or a.prop).split(",")
        if a.inplace:
            target = "/repo"
            r = sh("git -C /repo apply %s" % os.path.abspath(patch))
            assert r.returncode == 0, r.stderr
        else:
            target = tempfile.mkdtemp(prefix="seedwt2-")
            os.rmdir(target)
            assert sh("git -C /repo worktree add -q --detach %s HEAD" % target).returncode == 0
            r = sh("git -C %s apply %s" % (target, os.path.abspath(patch)))
            assert r.returncode == 0, r.stderr
        try:
            for p in props:
                t0 = time.time()
                c = sh("VERIF_REPO=%s sh %s/tools/check.sh %s %s --no-cover --no-evidence%s" % (target, VERIF, p, a.tier, (" --only '%s'" % a.only) if a.only else ""))
                lines = [l for l in c.stdout.splitlines() if l.startswith("VIOLATION") or "counterexample" in l or l.startswith("HARNESS-ERROR") or " -> exit " in l]
                meta["ran"].append({"cmd": "git apply patch.diff (%s); sh tools/check.sh %s %s --no-cover --no-evidence%s" % ("in /repo" if a.inplace else "scratch worktree via VERIF_REPO", p, a.tier, (" --only " + a.only) if a.only else ""),
                                    "exit": c.returncode, "wall_s": round(time.time() - t0, 1), "output": [l[:400] for l in lines[:6]]})
                print(p, "exit", c.returncode, [l[:200] for l in lines[:2]])
        finally:
            if a.inplace:
                sh("git -C /repo checkout -- .")
                assert sh("git -C /repo status --short").stdout.strip() == ""
            else:
                sh("git -C /repo worktree remove --force %s" % target)
                shutil.rmtree(target, ignore_errors=True)
        meta["detected_by"] = [x["cmd"].split("check.sh ")[1].split()[0] for x in meta["ran"] if x["exit"] == 1]
    out = os.path.join(VERIF, "seeded", a.name)
    os.makedirs(out, exist_ok=True)
    old_meta = os.path.join(out, "meta.json")
    if os.path.exists(old_meta):
        try:
            om = json.load(open(old_meta))
            meta["earlier_runs"] = om.get("earlier_runs", []) + [dict(r, note="before the checks were strengthened") for r in om.get("ran", [])]
        except Exception:
            pass
    for f in ("patch.diff", "demo.py", "notes.md"):
        if os.path.exists(os.path.join(a.seed_dir, f)):
            shutil.copy(os.path.join(a.seed_dir, f), os.path.join(out, f))
    notes = ""
    if os.path.exists(os.path.join(a.seed_dir, "notes.md")):
        notes = open(os.path.join(a.seed_dir, "notes.md")).read()
    meta["breaks"] = a.prop
    meta["needs_to_manifest"] = notes[:1500]
    json.dump(meta, open(os.path.join(out, "meta.json"), "w"), indent=1)


if __name__ == "__main__":
    main()
