"""C17 - the loader either rejects a file or returns a coherent IR (DESIGN 4, C17)."""
from load_h import *  # noqa: F401,F403
import load_h as L

ASSUMPTIONS = [
    "header: all 8 bytes symbolic (every shorter prefix as a shape), followed by the concrete serialisation of a valid IR; the stream model hands the remainder to the wire parser as concrete bytes",
    "ParseFromString is protobuf's: structural faults are injected into the message, which is then passed through SerializeToString/ParseFromString concretely",
    "wire-level corruption (every truncation point, every single-bit flip of one valid file) is enumerated by the engine, one concrete file per path",
    "'never hangs': every path runs under per_path_timeout; a path time-out makes the shard inconclusive (exit 2), it is never reported as success",
]
OUTSIDE = "byte strings that are neither a corrupted copy of the reference file nor within the bounded message shape; more than two simultaneous structural faults; multi-byte corruptions"
BOUNDS = {
    "quick": "header: every byte string of length 0..8 as prefix (symbolic bytes); message version field over [0, 2^32); every truncation and every single-bit flip of a ~300-byte valid file; "
             "single structural faults: each of 13 uuid fields := each of 18 values (another node of the same kind, of another kind, the IR, unknown, lengths 0/15/17) and 20 other faults "
             "(size below contents, block/expression without kind, undeclared enum numbers in 7 enum fields, duplicated module, cross-module references, ...)",
    "thorough": "as quick plus every pair (uuid-field fault x other fault)",
}


def shards(tier):
    out = []
    for n in range(0, 9):
        out.append({"fn": "header", "consts": {"n": n}, "timeout": 600, "twin": "first" if n == 8 else False, "cover": "first" if n == 8 else False})
    out.append({"fn": "msg_version", "consts": {}, "timeout": 300})
    out.append({"fn": "file_version", "consts": {}, "timeout": 300})
    out.append({"fn": "ref_fault", "consts": {}, "timeout": 600})
    total = 8 + len(L._valid_tail())       # length of the reference file (staged schema)
    step = 25
    for lo in range(0, total, step):
        out.append({"fn": "corrupt", "consts": {"lo": lo, "hi": lo + step}, "timeout": 1200, "path_timeout": 60, "twin": "first", "cover": False})
    out.append({"fn": "fault1", "consts": {"two": 0}, "timeout": 1200})
    if tier != "quick":
        out.append({"fn": "fault1", "consts": {"two": 1}, "timeout": 3000, "twin": False, "cover": False})
    return out
