"""C08 - AuxData bytes follow the shared wire format (DESIGN 4, C08): same harness functions as C07, format oracle."""
from codec_h import *  # noqa: F401,F403
from codec_h import ASSUMPTIONS, OUTSIDE  # noqa: F401
import refcodec as R

BOUNDS = {
    "quick": "all integers of every width (full range), bool, 128-bit UUID, Offset, double/float (all non-NaN values + NaN spot), "
             "strings <= 2 code points over all of Unicode, containers <= 2 elements over stub codec X (payload <= 2 bytes), "
             "symbolic suffix <= 2 bytes, 4 nested spot types, node resolution over 12 targets x 4 type shapes",
    "thorough": "as quick with strings <= 3 code points and containers <= 3 elements",
}


def shards(tier):
    return [dict(s, consts=dict(s["consts"], oracle="fmt")) for s in _shards(tier) if s["fn"] not in C07_ONLY]


C07_ONLY = {"node_resolution", "tuple_arity", "node_resolution_hist"}


def _shards(tier):
    n = 2 if tier == "quick" else 3
    out = [{"fn": "codec_table", "consts": {}, "timeout": 60, "cover": False}]
    for t in sorted(R.INTS):
        out.append({"fn": "int_enc", "consts": {"type": t}, "timeout": 300})
        out.append({"fn": "int_dec", "consts": {"type": t}, "timeout": 300})
    out += [
        {"fn": "bool_enc", "consts": {}, "timeout": 120},
        {"fn": "bool_dec", "consts": {}, "timeout": 120},
        {"fn": "str_enc", "consts": {"n": n}, "timeout": 900},
        {"fn": "str_dec", "consts": {"n": n}, "timeout": 900},
        {"fn": "uuid_enc", "consts": {}, "timeout": 300},
        {"fn": "offset_enc", "consts": {}, "timeout": 300},
        {"fn": "offset_dec", "consts": {}, "timeout": 300},
        {"fn": "double_enc", "consts": {}, "timeout": 300},
        {"fn": "float_enc", "consts": {}, "timeout": 300},
        {"fn": "nan_spot", "consts": {}, "timeout": 120, "cover": False},
        {"fn": "zero_spot", "consts": {}, "timeout": 120, "cover": False},
        {"fn": "string_spot", "consts": {}, "timeout": 300, "cover": False},
        {"fn": "after_failure", "consts": {}, "timeout": 300, "cover": False},
        {"fn": "seq_lemma", "consts": {"n": n}, "timeout": 900},
        {"fn": "set_lemma", "consts": {"n": n}, "timeout": 900},
        {"fn": "map_lemma", "consts": {"n": n}, "timeout": 900},
        {"fn": "tuple_arity", "consts": {}, "timeout": 120},
        {"fn": "variant_lemma", "consts": {}, "timeout": 600},
        {"fn": "spot_seq_tuple", "consts": {}, "timeout": 900},
        {"fn": "spot_variant", "consts": {}, "timeout": 600},
        {"fn": "spot_map_set", "consts": {}, "timeout": 600},
        {"fn": "spot_tuple_mixed", "consts": {}, "timeout": 600},
        {"fn": "node_resolution", "consts": {}, "timeout": 600},
    ]
    for t in sorted(R.INTS):
        for shape in (("sequence", "mapping") if tier == "quick" else ("sequence", "set", "mapping", "tuple")):
            out.append({"fn": "seq_of_int", "consts": {"type": t, "shape": shape}, "timeout": 600})
    for ty in ("double", "float"):
        out.append({"fn": "seq_of_double", "consts": {"ty": ty}, "timeout": 600})
    out.append({"fn": "spot_seq_variant", "consts": {}, "timeout": 600})
    for order in range(4):
        out.append({"fn": "tuple_mixed_ints", "consts": {"order": order, "nested": order % 2}, "timeout": 600})
    for ar in (1, 2, 3):
        out.append({"fn": "tuple_lemma", "consts": {"arity": ar}, "timeout": 600})
    return out
