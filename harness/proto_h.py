"""Message-level harnesses for C01 (round trip), C02 (writer / reader vs schema) - DESIGN 4, C01/C02.

Symbolic runs use protobuf's pure-Python backend (message objects hold the symbolic values) and
stop at the message object: IR._to_protobuf() and IR._from_protobuf().  SerializeToString /
ParseFromString belong to protobuf; they run concretely in witness replays (both backends).

oracle (SHARD["oracle"]):
  writer     every field of the produced message equals the attribute, per an explicit
             attribute<->field table written from the .proto comments (C02, writer direction)
  reader     message built directly from the descriptors with symbolic fields, every attribute of
             the loaded IR equals the field (C02, reader direction)
  roundtrip  snapshot(load(save(ir))) == snapshot(ir), deep_eq both ways, second generation equal (C01)
"""
import io
from typing import Optional
from uuid import UUID

from hbase import SHARD, U64, I63, CONCRETE, count, done, fail, pick, untraced

import gtirb
from gtirb.proto import (AuxData_pb2, ByteInterval_pb2, CFG_pb2, CodeBlock_pb2, DataBlock_pb2, IR_pb2, Module_pb2,
                         ProxyBlock_pb2, Section_pb2, Symbol_pb2, SymbolicExpression_pb2)

NAMES = ("", "a", "é<b>", "\x00")
ISAS = list(gtirb.Module.ISA)
FFS = list(gtirb.Module.FileFormat)
BOS = list(gtirb.Module.ByteOrder)
ETYPES = list(gtirb.Edge.Type)
SFLAGS = list(gtirb.Section.Flag)
DMODES = list(gtirb.CodeBlock.DecodeMode)
SATTRS = list(gtirb.SymbolicExpression.Attribute)


def U(i):
    return UUID(int=500 + i)


def _u64(x):
    return 0 <= x < U64


def _i64(x):
    return -I63 <= x < I63


def _ou64(x):
    return x is None or 0 <= x < U64


def oracle():
    return SHARD["oracle"]


# ---- independent snapshot of the observable content of an IR ---------------------------------
def _pay(y):
    if y.referent is not None:
        return ("ref", y.referent.uuid.int)
    return ("val", y.value)


def _expr(e):
    attrs = tuple(sorted((a.value if isinstance(a, gtirb.SymbolicExpression.Attribute) else ("raw", a)) if True else 0 for a in e.attributes)) \
        if all(isinstance(a, gtirb.SymbolicExpression.Attribute) for a in e.attributes) else \
        tuple(sorted(("enum", a.value) if isinstance(a, gtirb.SymbolicExpression.Attribute) else ("raw", a) for a in e.attributes))
    if isinstance(e, gtirb.SymAddrConst):
        return ("const", e.offset, e.symbol.uuid.int, attrs)
    return ("addr", e.scale, e.offset, e.symbol1.uuid.int, e.symbol2.uuid.int, attrs)


def _aux(c):
    out = []
    for k in sorted(c.aux_data):
        ad = c.aux_data[k]
        out.append((k, ad.type_name, _val(ad.data)))
    return tuple(out)


def _val(v):
    if isinstance(v, gtirb.Node):
        return ("node", type(v).__name__, v.uuid.int)
    if isinstance(v, gtirb.Offset):
        return ("offset", _val(v.element_id), v.displacement)
    if isinstance(v, UUID):
        return ("uuid", v.int)
    if isinstance(v, dict):
        return ("map", tuple(sorted(((_val(k), _val(x)) for k, x in v.items()), key=repr)))
    if isinstance(v, (set, frozenset)) or type(v).__name__ == "EagerSet":
        return ("set", tuple(sorted((_val(x) for x in v), key=repr)))
    if isinstance(v, (list, tuple)):
        return (type(v).__name__, tuple(_val(x) for x in v))
    if isinstance(v, gtirb.serialization.Variant):
        return ("variant", v.index, _val(v.val))
    return v


def snapshot(ir):
    mods = []
    for m in ir.modules:
        secs = []
        for s in sorted(m.sections, key=lambda n: n.uuid.int):
            bis = []
            for bi in sorted(s.byte_intervals, key=lambda n: n.uuid.int):
                blks = tuple(sorted(((b.uuid.int, type(b).__name__, b.offset, b.size,
                                      b.decode_mode.name if isinstance(b, gtirb.CodeBlock) else None) for b in bi.blocks), key=lambda t: t[0]))
                exprs = tuple((k, _expr(bi.symbolic_expressions[k])) for k in sorted(bi.symbolic_expressions))
                bis.append((bi.uuid.int, bi.address, bi.size, bi.initialized_size, bytes(bi.contents), blks, exprs))
            secs.append((s.uuid.int, s.name, tuple(sorted(f.name for f in s.flags)), tuple(bis)))
        syms = tuple(sorted(((y.uuid.int, y.name, y.at_end, _pay(y)) for y in m.symbols), key=lambda t: t[0]))
        prx = tuple(sorted(p.uuid.int for p in m.proxies))
        mods.append((m.uuid.int, m.name, m.binary_path, m.isa.name, m.file_format.name, m.byte_order.name, m.preferred_addr, m.rebase_delta,
                     None if m.entry_point is None else m.entry_point.uuid.int, tuple(secs), syms, prx, _aux(m)))
    edges = []
    for e in ir.cfg:
        lab = None if e.label is None else (e.label.type.name, e.label.conditional, e.label.direct)
        edges.append((e.source.uuid.int, e.target.uuid.int, lab))
    return (ir.uuid.int, ir.version, tuple(mods), tuple(sorted(edges, key=repr)), _aux(ir))


def _finish_roundtrip(ir, msg):
    """C01 oracle on an IR and the message it produced"""
    ir2 = gtirb.IR._from_protobuf(msg, None)
    s1 = snapshot(ir)
    s2 = snapshot(ir2)
    if s1 != s2:
        return "loaded IR differs from the saved one: %r" % (_first_diff(s1, s2),)
    if not ir.deep_eq(ir2):
        return "original.deep_eq(loaded) is False"
    if not ir2.deep_eq(ir):
        return "loaded.deep_eq(original) is False"
    msg2 = ir2._to_protobuf()
    ir3 = gtirb.IR._from_protobuf(msg2, None)
    if snapshot(ir3) != s1:
        return "second generation differs"
    return None


def _first_diff(a, b, path=()):
    if isinstance(a, tuple) and isinstance(b, tuple) and len(a) == len(b):
        for i, (x, y) in enumerate(zip(a, b)):
            if x != y:
                return _first_diff(x, y, path + (i,))
    return (path, a, b)


def _base(nmod=1):
    """minimal self-contained IR skeleton (concrete), returns (ir, module, section, interval)"""
    ir = gtirb.IR(uuid=U(1))
    m = gtirb.Module(name="m", uuid=U(2), ir=ir)
    s = gtirb.Section(name="s", uuid=U(3), module=m)
    bi = gtirb.ByteInterval(size=8, uuid=U(4), section=s)
    return ir, m, s, bi


def _enum_number(pb_enum, python_member):
    """number the schema assigns to the constant of that *name* (independent of the Python Enum's value)"""
    names = {"Undefined": None}
    d = pb_enum.DESCRIPTOR
    return d.values_by_name[python_member].number


# ---------------------------------------------------------------------------------------------
# W1 interval and blocks
# ---------------------------------------------------------------------------------------------
def w_interval(addr: Optional[int], extra: int, off: int, bsize: int) -> bool:
    """
    pre: _ou64(addr) and 0 <= extra < U64 - 2 and _u64(off) and _u64(bsize)
    post: __return__
    """
    clen = SHARD["clen"]
    kind = SHARD["kind"]
    dm = SHARD["dm"]
    with untraced():
        ir, m, s, bi0 = _base()
        bi0.section = None
        contents = bytes([0, 255][:clen])
    bi = gtirb.ByteInterval(address=addr, size=clen + extra, contents=contents, uuid=U(4), section=s)
    if kind == "code":
        b = gtirb.CodeBlock(offset=off, size=bsize, decode_mode=DMODES[dm], uuid=U(5), byte_interval=bi)
    else:
        b = gtirb.DataBlock(offset=off, size=bsize, uuid=U(5), byte_interval=bi)
    # a second block at the same offset, zero-sized (overlapping / equal offsets)
    z = gtirb.DataBlock(offset=off, size=0, uuid=U(6), byte_interval=bi)
    msg = ir._to_protobuf()
    if oracle() == "writer":
        pbi = msg.modules[0].sections[0].byte_intervals[0]
        if pbi.uuid != U(4).bytes or len(pbi.uuid) != 16:
            return fail("interval uuid field")
        if pbi.has_address != (addr is not None):
            return fail("has_address flag")
        if addr is not None and pbi.address != addr:
            return fail("address field")
        if pbi.size != clen + extra:
            return fail("size field")
        if bytes(pbi.contents) != contents:
            return fail("contents field")
        if len(pbi.blocks) != 2:
            return fail("block count")
        for pb in pbi.blocks:
            which = pb.WhichOneof("value")
            inner = pb.code if which == "code" else pb.data
            if inner.uuid == U(5).bytes:
                if which != kind:
                    return fail("block one-of")
                if pb.offset != off or inner.size != bsize:
                    return fail("block offset/size fields")
                if kind == "code" and inner.decode_mode != CodeBlock_pb2.DecodeMode.DESCRIPTOR.values_by_name[("All_Default", "ARM_Thumb")[dm]].number:
                    return fail("decode_mode number")
            elif inner.uuid == U(6).bytes:
                if which != "data" or pb.offset != off or inner.size != 0:
                    return fail("zero-sized block fields")
            else:
                return fail("unknown block uuid")
        return done()
    why = _finish_roundtrip(ir, msg)
    if why:
        return fail(why)
    return done()


def w_oversize(k: int, how: int) -> bool:
    """
    pre: 0 <= k < 4 and 0 <= how < 3
    post: __return__
    """
    # stored bytes edited after construction so that they are longer than size (the caller's doing): the written `contents`
    # field still equals the attribute, byte for byte (writer direction only; such an IR is not self-contained for C01)
    n = pick(k, 4)
    h = pick(how, 3)
    with untraced():
        ir, m, s, bi0 = _base()
        bi0.section = None
        bi = gtirb.ByteInterval(size=n, contents=bytes(range(1, n + 1)), uuid=U(4), section=s)
        if h == 0:
            bi.contents = bytearray(range(10, 13 + n))
        elif h == 1:
            bi.contents += b"\x07\x08"
        else:
            bi.initialized_size = n + 3
        want = bytes(bi.contents)
        msg = ir._to_protobuf()
        pbi = msg.modules[0].sections[0].byte_intervals[0]
        ok = bytes(pbi.contents) == want and pbi.size == n and len(want) > n
    if not ok:
        return fail("contents field differs from the stored bytes when they are longer than size (size=%d, how=%d)" % (n, h))
    return done()


# ---------------------------------------------------------------------------------------------
# W2 module scalars and enums
# ---------------------------------------------------------------------------------------------
ISA_NAMES = {"Undefined": "ISA_Undefined"}
FF_NAMES = {"Undefined": "Format_Undefined"}
BO_NAMES = {"Undefined": "ByteOrder_Undefined", "Big": "BigEndian", "Little": "LittleEndian"}


def w_module(pa: int, rd: int) -> bool:
    """
    pre: _u64(pa) and _i64(rd)
    post: __return__
    """
    isa, ff, bo = ISAS[SHARD["isa"]], FFS[SHARD["ff"]], BOS[SHARD["bo"]]
    name, bpath = NAMES[SHARD["name"]], NAMES[SHARD["bpath"]]
    with untraced():
        ir = gtirb.IR(uuid=U(1))
    m = gtirb.Module(name=name, binary_path=bpath, isa=isa, file_format=ff, byte_order=bo, preferred_addr=pa, rebase_delta=rd, uuid=U(2), ir=ir)
    msg = ir._to_protobuf()
    if oracle() == "writer":
        pm = msg.modules[0]
        if pm.uuid != U(2).bytes:
            return fail("module uuid")
        if pm.name != name or pm.binary_path != bpath:
            return fail("name / binary_path fields")
        if pm.preferred_addr != pa:
            return fail("preferred_addr field")
        if pm.rebase_delta != rd:
            return fail("rebase_delta field")
        if pm.isa != Module_pb2.ISA.DESCRIPTOR.values_by_name[ISA_NAMES.get(isa.name, isa.name)].number:
            return fail("isa number")
        if pm.file_format != Module_pb2.FileFormat.DESCRIPTOR.values_by_name[FF_NAMES.get(ff.name, ff.name)].number:
            return fail("file_format number")
        if pm.byte_order != Module_pb2.ByteOrder.DESCRIPTOR.values_by_name[BO_NAMES.get(bo.name, bo.name)].number:
            return fail("byte_order number")
        if len(pm.entry_point) != 0:
            return fail("entry_point set without an entry point")
        if msg.uuid != U(1).bytes or msg.version != gtirb.version.PROTOBUF_VERSION:
            return fail("IR uuid / version fields")
        return done()
    why = _finish_roundtrip(ir, msg)
    if why:
        return fail(why)
    return done()


# ---------------------------------------------------------------------------------------------
# W3 symbols
# ---------------------------------------------------------------------------------------------
def w_symbol(val: int, at_end: bool) -> bool:
    """
    pre: _u64(val)
    post: __return__
    """
    pk = SHARD["pk"]          # none, value, code, data, proxy
    name = NAMES[SHARD["name"]]
    with untraced():
        ir, m, s, bi = _base()
        zs = SHARD.get("bsize", 1)          # size of the referenced blocks: 0 (zero-sized referent / entry point) or 1
        cb = gtirb.CodeBlock(size=zs, uuid=U(5), byte_interval=bi)
        db = gtirb.DataBlock(size=zs, uuid=U(6), byte_interval=bi)
        px = gtirb.ProxyBlock(uuid=U(7), module=m)
        m.entry_point = cb
    payload = {"none": None, "value": val, "code": cb, "data": db, "proxy": px}[pk]
    y = gtirb.Symbol(name, uuid=U(8), payload=payload, at_end=at_end, module=m)
    y2 = gtirb.Symbol(name, uuid=U(9), payload=payload, module=m)     # several references to one node, shared names
    msg = ir._to_protobuf()
    if oracle() == "writer":
        pm = msg.modules[0]
        if pm.entry_point != U(5).bytes:
            return fail("entry_point field")
        seen = 0
        for ps in pm.symbols:
            if ps.uuid == U(8).bytes:
                seen += 1
                if ps.name != name or ps.at_end != at_end:
                    return fail("symbol name / at_end fields")
                which = ps.WhichOneof("optional_payload")
                if pk == "none":
                    if which is not None:
                        return fail("payload one-of set for a symbol without payload")
                elif pk == "value":
                    if which != "value" or ps.value != val:
                        return fail("value one-of")
                else:
                    if which != "referent_uuid" or ps.referent_uuid != payload.uuid.bytes:
                        return fail("referent_uuid one-of")
        if seen != 1 or len(pm.symbols) != 2:
            return fail("symbol count")
        vs = sorted(bytes(v) for v in msg.cfg.vertices)
        if vs != sorted([U(5).bytes, U(7).bytes]):
            return fail("cfg.vertices does not name every CFG node of the IR")
        return done()
    why = _finish_roundtrip(ir, msg)
    if why:
        return fail(why)
    return done()


# ---------------------------------------------------------------------------------------------
# W4 symbolic expressions
# ---------------------------------------------------------------------------------------------
def w_expr(off: int, scale: int, unk: int) -> bool:
    """
    pre: _i64(off) and _i64(scale)
    pre: 27 <= unk < 1000 or 4010 <= unk < 2**31
    post: __return__
    """
    kind = SHARD["kind"]
    key = SHARD["key"]
    amask = SHARD["amask"]      # bit0 GOT, bit1 PLT (known), bit2 unknown numeric attribute `unk`
    with untraced():
        ir, m, s, bi = _base()
        bi.size = 2 ** 64 - 1
        y1 = gtirb.Symbol("y1", uuid=U(8), module=m)
        y2 = gtirb.Symbol("y2", uuid=U(9), module=m)
    attrs = [a for i, a in enumerate((SATTRS[1], SATTRS[5])) if (amask >> i) & 1]
    if amask & 4:
        attrs.append(unk)
    if kind == "const":
        e = gtirb.SymAddrConst(off, y1, attributes=attrs)
    else:
        e = gtirb.SymAddrAddr(scale, off, y1, y2, attributes=attrs)
    bi.symbolic_expressions[key] = e
    # neighbours at lower and higher offsets with other attribute sets (several expressions in one interval)
    lowk, highk = (key - 1 if key > 0 else None), (key + 1 if key < 2 ** 64 - 1 else None)
    if lowk is not None:
        bi.symbolic_expressions[lowk] = gtirb.SymAddrConst(7, y2, attributes=[SATTRS[9], SATTRS[2]])
    if highk is not None:
        bi.symbolic_expressions[highk] = gtirb.SymAddrConst(-7, y1)
    msg = ir._to_protobuf()
    if oracle() == "writer":
        pbi = msg.modules[0].sections[0].byte_intervals[0]
        if sorted(pbi.symbolic_expressions.keys()) != sorted(k for k in (lowk, key, highk) if k is not None):
            return fail("expression map keys")
        if highk is not None and (len(pbi.symbolic_expressions[highk].attribute_flags) != 0 or pbi.symbolic_expressions[highk].addr_const.offset != -7):
            return fail("neighbouring expression fields")
        if lowk is not None and sorted(pbi.symbolic_expressions[lowk].attribute_flags) != sorted([SATTRS[9].value, SATTRS[2].value]):
            return fail("neighbouring expression attribute flags")
        pe = pbi.symbolic_expressions[key]
        which = pe.WhichOneof("value")
        if kind == "const":
            if which != "addr_const" or pe.addr_const.offset != off or pe.addr_const.symbol_uuid != U(8).bytes:
                return fail("addr_const fields")
        else:
            if which != "addr_addr" or pe.addr_addr.offset != off or pe.addr_addr.scale != scale:
                return fail("addr_addr offset/scale fields")
            if pe.addr_addr.symbol1_uuid != U(8).bytes or pe.addr_addr.symbol2_uuid != U(9).bytes:
                return fail("addr_addr symbol fields")
        want = [a.value if not isinstance(a, int) else a for a in attrs]
        got = list(pe.attribute_flags)
        if len(got) != len(want) or any(w not in got for w in want):
            return fail("attribute_flags")
        for i, a in enumerate((SATTRS[1], SATTRS[5])):
            if (amask >> i) & 1 and SymbolicExpression_pb2.SymAttribute.DESCRIPTOR.values_by_name[a.name].number not in got:
                return fail("attribute flag number")
        return done()
    why = _finish_roundtrip(ir, msg)
    if why:
        return fail(why)
    return done()


# ---------------------------------------------------------------------------------------------
# W5 CFG
# ---------------------------------------------------------------------------------------------
def w_cfg(c1: bool, d1: bool) -> bool:
    """
    post: __return__
    """
    lt = SHARD["lt"]            # -1: no label; else edge type index
    shape = SHARD["shape"]      # 0: one edge a->b ; 1: plus parallel edge with label None ; 2: self loop on proxy + edge
    with untraced():
        ir, m, s, bi = _base()
        a = gtirb.CodeBlock(size=1, uuid=U(5), byte_interval=bi)
        b = gtirb.ProxyBlock(uuid=U(7), module=m)
    lab = None if lt < 0 else gtirb.Edge.Label(ETYPES[lt], c1, d1)
    ir.cfg.add(gtirb.Edge(a, b, lab))
    if shape >= 1:
        ir.cfg.add(gtirb.Edge(a, b, None if lab is not None else gtirb.Edge.Label(ETYPES[0], False, False)))
    if shape >= 2:
        ir.cfg.add(gtirb.Edge(b, b, gtirb.Edge.Label(ETYPES[1], False, False)))
    msg = ir._to_protobuf()
    if oracle() == "writer":
        es = list(msg.cfg.edges)
        if len(es) != 1 + min(shape, 2):
            return fail("edge count")
        found = False
        for pe in es:
            if pe.source_uuid == U(5).bytes and pe.target_uuid == U(7).bytes:
                if lab is None:
                    if not pe.HasField("label"):
                        found = True
                elif pe.HasField("label") and pe.label.type == CFG_pb2.EdgeType.DESCRIPTOR.values_by_name["Type_" + ETYPES[lt].name].number \
                        and pe.label.conditional == c1 and pe.label.direct == d1:
                    found = True
        if not found:
            return fail("edge label fields (a missing label must stay missing, an all-false label must be present)")
        return done()
    why = _finish_roundtrip(ir, msg)
    if why:
        return fail(why)
    return done()


# ---------------------------------------------------------------------------------------------
# W6 sections, shapes, AuxData (structure-only: concrete once decoded)
# ---------------------------------------------------------------------------------------------
def _shape_ir(nmod, nsec, nbi, order, ep, ref, fmask, sname):
    ir = gtirb.IR(uuid=U(1))
    cbs = []
    for mi in range(nmod):
        if order == 0:
            m = gtirb.Module(name="m%d" % mi, uuid=U(10 + mi), ir=ir)
        else:
            m = gtirb.Module(name="m%d" % mi, uuid=U(10 + mi))
        secs = []
        for si in range(nsec):
            flags = [SFLAGS[i] for i in range(len(SFLAGS)) if (fmask >> i) & 1]
            s = gtirb.Section(name=NAMES[sname], uuid=U(20 + 10 * mi + si), flags=flags)
            if order != 2:
                s.module = m
            secs.append(s)
            for bi_i in range(nbi):
                bi = gtirb.ByteInterval(size=4, address=(None if bi_i else 0), uuid=U(40 + 20 * mi + 4 * si + bi_i), contents=b"\x01" if bi_i else b"")
                if order == 1:
                    s.byte_intervals.add(bi)
                else:
                    bi.section = s
                cb = gtirb.CodeBlock(size=1, offset=bi_i, uuid=U(100 + 20 * mi + 4 * si + bi_i), byte_interval=bi)
                cbs.append((mi, cb))
        if order == 2:
            m.sections.update(secs)
        if order != 0:
            ir.modules.append(m)
        mine = [c for (i, c) in cbs if i == mi]
        if ep and mine:
            m.entry_point = mine[-1]
        if ref and mine:
            gtirb.Symbol("r", uuid=U(200 + mi), payload=mine[0], module=m)
            gtirb.Symbol("v", uuid=U(210 + mi), payload=0, module=m)
    return ir


def w_shape(a: int, b: int, c: int, d: int) -> bool:
    """
    pre: 0 <= a < 9 and 0 <= b < 9 and 0 <= c < 4 and 0 <= d < 8
    post: __return__
    """
    x, y, z, t = pick(a, 9), pick(b, 9), pick(c, 4), pick(d, 8)
    nmod, nsec = x // 3, x % 3
    nbi, order = y // 3, y % 3
    ep, ref = z // 2, z % 2
    fmask = (0, 1, 2, 64, 127, 5, 40, 0)[t]
    with untraced():
        ir = _shape_ir(nmod, nsec, nbi, order, ep, ref, fmask, t % len(NAMES))
        msg = ir._to_protobuf()
        why = None
        if oracle() == "writer":
            if len(msg.modules) != nmod:
                why = "module count"
            vs = sorted(bytes(v) for v in msg.cfg.vertices)
            if why is None and vs != sorted(n.uuid.bytes for n in ir.cfg_nodes):
                why = "cfg.vertices does not name every CFG node of the IR"
            for pm in msg.modules:
                if why is None and len(pm.sections) != nsec:
                    why = "section count"
                for ps in pm.sections:
                    want = sorted(Section_pb2.SectionFlag.DESCRIPTOR.values_by_name["Section_Undefined" if f.name == "Undefined" else f.name].number
                                  for i, f in enumerate(SFLAGS) if (fmask >> i) & 1)
                    if why is None and sorted(ps.section_flags) != want:
                        why = "section_flags numbers"
                    if why is None and ps.name != NAMES[t % len(NAMES)]:
                        why = "section name"
                    if why is None and len(ps.byte_intervals) != nbi:
                        why = "interval count"
        else:
            why = _finish_roundtrip(ir, msg)
    if why:
        return fail("shape nmod=%d nsec=%d nbi=%d order=%d ep=%d ref=%d flags=%d: %s" % (nmod, nsec, nbi, order, ep, ref, fmask, why))
    count("scenarios")
    return done()


def w_combo(addr: Optional[int], val: int, pa: int, rd: int, c1: bool) -> bool:
    """
    pre: _ou64(addr) and _u64(val) and _u64(pa) and _i64(rd)
    post: __return__
    """
    # several kinds symbolic at once in ONE IR (thorough tier): module scalars, interval address, block offset = val, symbol value, edge label flag
    order = SHARD["order"]
    with untraced():
        ir = gtirb.IR(uuid=U(1))
        m2 = gtirb.Module(name="second", uuid=U(12), ir=ir)
        gtirb.Symbol("z", uuid=U(18), payload=0, module=m2)
    if order == 0:
        m = gtirb.Module(name="m", uuid=U(2), preferred_addr=pa, rebase_delta=rd, ir=ir)
        s = gtirb.Section(name="s", uuid=U(3), module=m)
        bi = gtirb.ByteInterval(address=addr, size=2 ** 64 - 1, uuid=U(4), section=s)
        cb = gtirb.CodeBlock(offset=val, size=0, uuid=U(5), byte_interval=bi)
    else:
        cb = gtirb.CodeBlock(offset=val, size=0, uuid=U(5))
        bi = gtirb.ByteInterval(address=addr, size=2 ** 64 - 1, uuid=U(4), blocks=[cb])
        s = gtirb.Section(name="s", uuid=U(3), byte_intervals=[bi])
        m = gtirb.Module(name="m", uuid=U(2), preferred_addr=pa, rebase_delta=rd, sections=[s])
        ir.modules.insert(0, m)
    px = gtirb.ProxyBlock(uuid=U(7), module=m)
    y = gtirb.Symbol("y", uuid=U(8), payload=val, module=m)
    y2 = gtirb.Symbol("", uuid=U(9), payload=cb, at_end=c1, module=m)
    m.entry_point = cb
    bi.symbolic_expressions[val % 7] = gtirb.SymAddrAddr(rd, -1, y, y2, attributes=[SATTRS[3]])
    ir.cfg.add(gtirb.Edge(cb, px, gtirb.Edge.Label(ETYPES[2], c1, not c1)))
    ir.cfg.add(gtirb.Edge(px, cb))
    msg = ir._to_protobuf()
    if oracle() == "writer":
        pm = [x for x in msg.modules if x.uuid == U(2).bytes][0]
        pbi = pm.sections[0].byte_intervals[0]
        ok = pm.preferred_addr == pa and pm.rebase_delta == rd and pbi.has_address == (addr is not None) and (addr is None or pbi.address == addr)
        ok = ok and pbi.blocks[0].offset == val and pm.entry_point == U(5).bytes and len(msg.modules) == 2
        for ps in pm.symbols:
            if ps.uuid == U(8).bytes:
                ok = ok and ps.WhichOneof("optional_payload") == "value" and ps.value == val
            else:
                ok = ok and ps.WhichOneof("optional_payload") == "referent_uuid" and ps.at_end == c1 and ps.name == ""
        k = list(pbi.symbolic_expressions.keys())
        ok = ok and k == [val % 7] and pbi.symbolic_expressions[k[0]].addr_addr.scale == rd and pbi.symbolic_expressions[k[0]].addr_addr.offset == -1
        nl = [e for e in msg.cfg.edges if not e.HasField("label")]
        wl = [e for e in msg.cfg.edges if e.HasField("label")]
        ok = ok and len(nl) == 1 and len(wl) == 1 and wl[0].label.conditional == c1 and wl[0].label.direct == (not c1)
        if not ok:
            return fail("combined writer fields")
        return done()
    why = _finish_roundtrip(ir, msg)
    if why:
        return fail(why)
    return done()


AUX_TYPES = ["uint64_t", "int64_t", "mapping<string,int64_t>", "sequence<tuple<uint8_t,int64_t>>", "set<UUID>", "mapping<UUID,Offset>", "string", "bool",
             "sequence<int64_t>", "mapping<string,sequence<int16_t>>", "variant<string,UUID>"]


def w_aux(v: int) -> bool:
    """
    pre: _i64(v)
    post: __return__
    """
    t = AUX_TYPES[SHARD["t"]]
    level = SHARD["level"]
    with untraced():
        ir, m, s, bi = _base()
        cb = gtirb.CodeBlock(size=1, uuid=U(5), byte_interval=bi)
        loose = UUID(int=77)
    if t == "uint64_t":
        val = v + I63
    elif t == "int64_t":
        val = v
    elif t == "mapping<string,int64_t>":
        val = {"k": v, "": 0}
    elif t == "sequence<tuple<uint8_t,int64_t>>":
        val = [(1, v), (2, -1)]
    elif t == "set<UUID>":
        val = {cb, loose}
    elif t == "mapping<UUID,Offset>":
        val = {s.uuid: gtirb.Offset(cb, v + I63), loose: gtirb.Offset(loose, 0)}
    elif t == "string":
        val = NAMES[2]
    elif t == "sequence<int64_t>":
        val = [v, -1, 0]
    elif t == "mapping<string,sequence<int16_t>>":
        val = {"k": [-2, 3, -32768]}
    elif t == "variant<string,UUID>":
        val = gtirb.serialization.Variant(1, cb)
    else:
        val = v >= 0
    holder = ir if level == "ir" else m
    holder.aux_data["t"] = gtirb.AuxData(val, t)
    if SHARD.get("presave"):
        # the IR was saved once before; afterwards the table is edited in place (through the object returned by .data)
        ir._to_protobuf()
        cur = holder.aux_data["t"].data
        if t == "mapping<string,int64_t>":
            cur["k"] = v - 1 if v > -I63 else v + 1
            cur["later"] = 5
            val = {"k": cur["k"], "": 0, "later": 5}
        elif t == "sequence<tuple<uint8_t,int64_t>>":
            cur.append((3, v))
            val = [(1, v), (2, -1), (3, v)]
        elif t == "set<UUID>":
            cur.discard(loose)
            val = {cb}
    msg = ir._to_protobuf()
    if oracle() == "writer":
        pa = (msg if level == "ir" else msg.modules[0]).aux_data
        if list(pa.keys()) != ["t"] or pa["t"].type_name != t:
            return fail("aux_data key / type_name")
        return done()
    ir2 = gtirb.IR._from_protobuf(msg, None)
    h2 = ir2 if level == "ir" else ir2.modules[0]
    if "t" not in h2.aux_data or h2.aux_data["t"].type_name != t:
        return fail("AuxData table lost or renamed")
    got = h2.aux_data["t"].data
    cb2 = ir2.get_by_uuid(U(5))
    s2 = ir2.get_by_uuid(U(3))
    if SHARD.get("presave") and t in ("mapping<string,int64_t>", "sequence<tuple<uint8_t,int64_t>>", "set<UUID>"):
        if t == "set<UUID>":
            ok = len(got) == 1 and any(x is cb2 for x in got)
        elif t == "mapping<string,int64_t>":
            ok = len(got) == 3 and got["k"] == val["k"] and got["later"] == 5 and got[""] == 0
        else:
            ok = len(got) == 3 and got[2] == (3, v) and got[0] == (1, v)
    elif t == "set<UUID>":
        ok = len(got) == 2 and any(x is cb2 for x in got) and any(isinstance(x, UUID) and x == loose for x in got)
    elif t == "mapping<UUID,Offset>":
        ok = len(got) == 2 and s2 in got and got[s2].element_id is cb2 and got[s2].displacement == v + I63 \
            and loose in got and got[loose].element_id == loose
    elif t == "sequence<tuple<uint8_t,int64_t>>":
        ok = len(got) == 2 and got[0] == (1, v) and got[1] == (2, -1)
    elif t == "mapping<string,int64_t>":
        ok = len(got) == 2 and got["k"] == v and got[""] == 0
    elif t == "sequence<int64_t>":
        ok = len(got) == 3 and got[0] == v and got[1] == -1 and got[2] == 0
    elif t == "mapping<string,sequence<int16_t>>":
        ok = list(got.keys()) == ["k"] and got["k"] == [-2, 3, -32768]
    elif t == "variant<string,UUID>":
        ok = got.index == 1 and got.val is cb2
    else:
        ok = got == val and type(got) is type(val) or (isinstance(val, int) and got == val)
    if not ok:
        return fail("decoded AuxData value differs after load (AuxData must be decoded against the loaded IR)")
    if not (ir.deep_eq(ir2) and ir2.deep_eq(ir)):
        return fail("deep_eq after load")
    return done()


def w_aux_renamed(v: int) -> bool:
    """
    pre: 0 <= v < 2**32
    post: __return__
    """
    # a loaded table whose type name is changed (never read) and is then written: the data field must be the encoding of the
    # value under the CURRENT name (uint32 -> uint64: 8 bytes), the type_name field the current name
    with untraced():
        ir, m, s, bi = _base()
    ir.aux_data["t"] = gtirb.AuxData(v, "uint32_t")
    m.aux_data["u"] = gtirb.AuxData([v, 1], "sequence<uint32_t>")
    ir2 = gtirb.IR._from_protobuf(ir._to_protobuf(), None)
    ir2.aux_data["t"].type_name = "uint64_t"
    ir2.modules[0].aux_data["u"].type_name = "sequence<uint64_t>"
    msg = ir2._to_protobuf()
    a, b = msg.aux_data["t"], msg.modules[0].aux_data["u"]
    if a.type_name != "uint64_t" or b.type_name != "sequence<uint64_t>":
        return fail("type_name field")
    if len(a.data) != 8 or sum(a.data[i] * 256 ** i for i in range(8)) != v:
        return fail("data field of a renamed table is not the encoding under its current type name")
    if len(b.data) != 24 or sum(b.data[8 + i] * 256 ** i for i in range(8)) != v or b.data[16] != 1:
        return fail("data field of a renamed sequence table")
    return done()


def header(nmod: int) -> bool:
    """
    pre: 0 <= nmod < 3
    post: __return__
    """
    n = pick(nmod, 3)
    with untraced():
        ir = _shape_ir(n, 1, 1, 0, 1, 1, 5, 1)
        out = io.BytesIO()
        ir.save_protobuf_file(out)
        raw = out.getvalue()
        why = None
        ver = int(open_version())
        if raw[:5] != b"GTIRB" or raw[5:7] != b"\x00\x00" or raw[7] != ver or len(raw) < 8:
            why = "header is not GTIRB, two zero bytes, the protobuf version"
        else:
            msg = IR_pb2.IR()
            msg.ParseFromString(raw[8:])
            if msg != ir._to_protobuf() and msg.SerializeToString(deterministic=True) != ir._to_protobuf().SerializeToString(deterministic=True):
                why = "bytes after the header are not the IR message"
            ir2 = gtirb.IR.load_protobuf_file(io.BytesIO(raw))
            if why is None and snapshot(ir2) != snapshot(ir):
                why = "file produced by save does not load back to the same IR"
    if why:
        return fail(why)
    return done()


def open_version():
    import os

    repo = os.environ.get("VERIF_REPO", "/repo")
    for line in open(os.path.join(repo, "version.txt")):
        if line.startswith("VERSION_PROTOBUF"):
            return line.split()[1]
    raise AssertionError("version.txt")


# ---------------------------------------------------------------------------------------------
# reader direction: messages built from the descriptors
# ---------------------------------------------------------------------------------------------
def _msg_base(early=False):
    msg = IR_pb2.IR()
    msg.uuid = U(1).bytes
    msg.version = gtirb.version.PROTOBUF_VERSION
    if early:
        # an earlier module owning symbol U(9): later modules may name it (referentially closed, file order respected)
        pe = msg.modules.add()
        pe.uuid = U(11).bytes
        pe.name = "early"
        pe.symbols.add().uuid = U(9).bytes
    pm = msg.modules.add()
    pm.uuid = U(2).bytes
    pm.name = "m"
    ps = pm.sections.add()
    ps.uuid = U(3).bytes
    ps.name = "s"
    pbi = ps.byte_intervals.add()
    pbi.uuid = U(4).bytes
    pbi.size = 8
    return msg, pm, ps, pbi


def r_interval(has: bool, addr: int, size: int, off: int, bsize: int) -> bool:
    """
    pre: _u64(addr) and _u64(size) and _u64(off) and _u64(bsize)
    post: __return__
    """
    kind = SHARD["kind"]
    dm = SHARD["dm"]
    with untraced():
        msg, pm, ps, pbi = _msg_base()
    pbi.has_address = has
    pbi.address = addr              # a non-zero address with has_address=False is schema-valid
    pbi.size = size
    pb = pbi.blocks.add()
    pb.offset = off
    if kind == "code":
        pb.code.uuid = U(5).bytes
        pb.code.size = bsize
        pb.code.decode_mode = dm
    else:
        pb.data.uuid = U(5).bytes
        pb.data.size = bsize
    ir = gtirb.IR._from_protobuf(msg, None)
    bi = ir.get_by_uuid(U(4))
    b = ir.get_by_uuid(U(5))
    if not isinstance(bi, gtirb.ByteInterval) or not isinstance(b, gtirb.CodeBlock if kind == "code" else gtirb.DataBlock):
        return fail("kinds")
    if has:
        if bi.address != addr:
            return fail("address attribute")
    elif bi.address is not None:
        return fail("address must be None when has_address is false")
    if bi.size != size or b.offset != off or b.size != bsize:
        return fail("size / offset attributes")
    if kind == "code" and b.decode_mode.name != ("Default", "Thumb")[dm]:
        return fail("decode_mode attribute")
    if b.byte_interval is not bi or bi.section is None or bi.section.uuid != U(3):
        return fail("containment")
    return done()


def r_module(isa: int, ff: int, bo: int, pa: int, rd: int) -> bool:
    """
    pre: 0 <= isa < 12 and 0 <= ff < 10 and 0 <= bo < 4
    pre: _u64(pa) and _i64(rd)
    post: __return__
    """
    which = SHARD["which"]
    with untraced():
        msg, pm, ps, pbi = _msg_base()
        pm.name = NAMES[SHARD["name"]]
        pm.binary_path = NAMES[SHARD["bpath"]]
    # one enum field symbolic at a time (shape dimension), numbers decoded by chain: one path per declared constant
    i = f = b = 0
    if which == "isa":
        i = pick(isa, 12)
        pm.isa = i
    elif which == "ff":
        f = pick(ff, 10)
        pm.file_format = f
    else:
        b = pick(bo, 4)
        pm.byte_order = b
    pm.preferred_addr = pa
    pm.rebase_delta = rd
    declared = (i in Module_pb2.ISA.DESCRIPTOR.values_by_number and f in Module_pb2.FileFormat.DESCRIPTOR.values_by_number
                and b in Module_pb2.ByteOrder.DESCRIPTOR.values_by_number)
    try:
        ir = gtirb.IR._from_protobuf(msg, None)
    except ValueError:
        if declared:
            return fail("an enum constant the schema defines was rejected (isa=%d ff=%d bo=%d)" % (i, f, b))
        return done()
    if not declared:
        return done()      # numbers outside the schema: accepting or rejecting is not C02's subject
    m = ir.modules[0]
    py = lambda n: {"ISA_Undefined": "Undefined", "Format_Undefined": "Undefined", "ByteOrder_Undefined": "Undefined", "BigEndian": "Big", "LittleEndian": "Little"}.get(n, n)
    if m.isa.name != py(Module_pb2.ISA.DESCRIPTOR.values_by_number[i].name):
        return fail("isa attribute")
    if m.file_format.name != py(Module_pb2.FileFormat.DESCRIPTOR.values_by_number[f].name):
        return fail("file_format attribute")
    if m.byte_order.name != py(Module_pb2.ByteOrder.DESCRIPTOR.values_by_number[b].name):
        return fail("byte_order attribute")
    if m.preferred_addr != pa or m.rebase_delta != rd:
        return fail("preferred_addr / rebase_delta attributes")
    if m.name != NAMES[SHARD["name"]] or m.binary_path != NAMES[SHARD["bpath"]] or m.entry_point is not None:
        return fail("name / binary_path / entry_point attributes")
    return done()


def r_symbol(val: int, at_end: bool) -> bool:
    """
    pre: _u64(val)
    post: __return__
    """
    pk = SHARD["pk"]
    with untraced():
        msg, pm, ps, pbi = _msg_base()
        pb = pbi.blocks.add()
        pb.code.uuid = U(5).bytes
        pb2 = pbi.blocks.add()
        pb2.data.uuid = U(6).bytes
        pm.proxies.add().uuid = U(7).bytes
        pm.entry_point = U(5).bytes
    py = pm.symbols.add()
    py.uuid = U(8).bytes
    py.name = NAMES[SHARD["name"]]
    py.at_end = at_end
    if pk == "value":
        py.value = val
    elif pk != "none":
        py.referent_uuid = {"code": U(5), "data": U(6), "proxy": U(7)}[pk].bytes
    ir = gtirb.IR._from_protobuf(msg, None)
    y = ir.get_by_uuid(U(8))
    if not isinstance(y, gtirb.Symbol) or y.name != NAMES[SHARD["name"]] or y.at_end != at_end or y.module is not ir.modules[0]:
        return fail("symbol attributes")
    if pk == "none":
        if y.value is not None or y.referent is not None:
            return fail("payload of a symbol without payload")
    elif pk == "value":
        if y.value != val or y.referent is not None:
            return fail("value attribute (an explicit 0 is a value, not 'no payload')")
    else:
        want = ir.get_by_uuid({"code": U(5), "data": U(6), "proxy": U(7)}[pk])
        if y.referent is not want or y.value is not None:
            return fail("referent attribute")
    if ir.modules[0].entry_point is not ir.get_by_uuid(U(5)):
        return fail("entry_point attribute")
    return done()


def r_expr(off: int, scale: int, flag: int) -> bool:
    """
    pre: _i64(off) and _i64(scale)
    pre: 0 <= flag < 2**31
    post: __return__
    """
    kind = SHARD["kind"]
    key = SHARD["key"]
    nflags = SHARD["nflags"]
    cross = SHARD.get("cross", 0)
    with untraced():
        msg, pm, ps, pbi = _msg_base(early=bool(cross))
        pm.symbols.add().uuid = U(8).bytes
        if not cross:
            pm.symbols.add().uuid = U(9).bytes
    pe = pbi.symbolic_expressions[key]
    if kind == "const":
        pe.addr_const.offset = off
        pe.addr_const.symbol_uuid = U(8).bytes
    else:
        pe.addr_addr.offset = off
        pe.addr_addr.scale = scale
        pe.addr_addr.symbol1_uuid = U(8).bytes
        pe.addr_addr.symbol2_uuid = U(9).bytes
    if nflags >= 1:
        pe.attribute_flags.append(flag)
    if nflags >= 2:
        pe.attribute_flags.append(SymbolicExpression_pb2.SymAttribute.DESCRIPTOR.values_by_name["PLT"].number)
    # a neighbour without any flag, decoded after / before the flagged one, and the same message loaded once more
    nkey = key + 1 if key < 2 ** 64 - 1 else key - 1
    pn = pbi.symbolic_expressions[nkey]
    pn.addr_const.offset = 9
    pn.addr_const.symbol_uuid = U(8).bytes
    # (the second load only in the `const` shards: it doubles the path count, and the `addr` shards sit near the tier's cap)
    ir0 = gtirb.IR._from_protobuf(msg, None) if kind == "const" else None
    ir = gtirb.IR._from_protobuf(msg, None)
    bi = ir.get_by_uuid(U(4))
    if sorted(bi.symbolic_expressions.keys()) != sorted([key, nkey]):
        return fail("expression keys")
    nb = bi.symbolic_expressions[nkey]
    if len(nb.attributes) != 0 or nb.offset != 9 or (ir0 is not None and len(ir0.get_by_uuid(U(4)).symbolic_expressions[nkey].attributes) != 0):
        return fail("an expression without attribute flags loaded with attributes (state shared between expressions or loads)")
    e = bi.symbolic_expressions[key]
    y1, y2 = ir.get_by_uuid(U(8)), ir.get_by_uuid(U(9))
    if kind == "const":
        if not isinstance(e, gtirb.SymAddrConst) or e.offset != off or e.symbol is not y1:
            return fail("SymAddrConst attributes")
    else:
        if not isinstance(e, gtirb.SymAddrAddr) or e.offset != off or e.scale != scale or e.symbol1 is not y1 or e.symbol2 is not y2:
            return fail("SymAddrAddr attributes")
    nums = sorted((a.value if isinstance(a, gtirb.SymbolicExpression.Attribute) else a) for a in e.attributes)
    want = []
    if nflags >= 1:
        want.append(flag)
    if nflags >= 2:
        want.append(SymbolicExpression_pb2.SymAttribute.DESCRIPTOR.values_by_name["PLT"].number)
    if nums != sorted(set(want)):
        return fail("attributes (known constants and unknown numbers must both survive)")
    for a in e.attributes:
        known = (a.value if isinstance(a, gtirb.SymbolicExpression.Attribute) else a) in SymbolicExpression_pb2.SymAttribute.DESCRIPTOR.values_by_number
        if known != isinstance(a, gtirb.SymbolicExpression.Attribute):
            return fail("a declared attribute constant must load as the enum member, an undeclared number as an int")
    return done()


def r_edge(t: int, c: bool, d: bool) -> bool:
    """
    pre: 0 <= t < 7
    post: __return__
    """
    has_label = SHARD["has_label"]
    with untraced():
        msg, pm, ps, pbi = _msg_base()
        pbi.blocks.add().code.uuid = U(5).bytes
        pm.proxies.add().uuid = U(7).bytes
    pe = msg.cfg.edges.add()
    pe.source_uuid = U(5).bytes
    pe.target_uuid = U(7).bytes
    ti = pick(t, 7)
    if has_label:
        pe.label.type = ti
        pe.label.conditional = c
        pe.label.direct = d
    declared = ti in CFG_pb2.EdgeType.DESCRIPTOR.values_by_number
    try:
        ir = gtirb.IR._from_protobuf(msg, None)
    except ValueError:
        if declared or not has_label:
            return fail("an edge type the schema defines was rejected")
        return done()
    if has_label and not declared:
        return done()
    es = list(ir.cfg)
    if len(es) != 1 or es[0].source is not ir.get_by_uuid(U(5)) or es[0].target is not ir.get_by_uuid(U(7)):
        return fail("edge endpoints")
    lab = es[0].label
    if not has_label:
        if lab is not None:
            return fail("a missing label must load as None")
    else:
        if lab is None or ("Type_" + lab.type.name) != CFG_pb2.EdgeType.DESCRIPTOR.values_by_number[ti].name or lab.conditional != c or lab.direct != d:
            return fail("label attributes (an all-default label is a label, not None)")
    return done()


def r_section(f0: int, f1: int) -> bool:
    """
    pre: 0 <= f0 < 8 and 0 <= f1 < 8
    post: __return__
    """
    a, b = pick(f0, 8), pick(f1, 8)
    with untraced():
        msg, pm, ps, pbi = _msg_base()
        ps.name = NAMES[SHARD["name"]]
        ps.section_flags.append(a)
        if SHARD["two"]:
            ps.section_flags.append(b)
        flags = [a] + ([b] if SHARD["two"] else [])
        declared = all(x in Section_pb2.SectionFlag.DESCRIPTOR.values_by_number for x in flags)
        why = None
        try:
            ir = gtirb.IR._from_protobuf(msg, None)
        except ValueError:
            ir = None
            if declared:
                why = "a section flag the schema defines was rejected"
        if ir is not None and declared:
            s = ir.get_by_uuid(U(3))
            names = sorted("Section_Undefined" if f.name == "Undefined" else f.name for f in s.flags)
            want = sorted(set(Section_pb2.SectionFlag.DESCRIPTOR.values_by_number[x].name for x in flags))
            if names != want or s.name != NAMES[SHARD["name"]]:
                why = "section flags / name attributes"
    if why:
        return fail(why)
    return done()


ASSUMPTIONS = [
    "protobuf pure-Python backend under the solver (messages hold symbolic values); upb backend and real wire bytes (SerializeToString/ParseFromString) only in witness replay",
    "each harness keeps <= 5 symbolic scalars (every proto3 scalar assignment doubles the paths); composition across kinds is through the shape harness",
]
REPLAY_BACKENDS = [None, "python"]
