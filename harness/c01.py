"""C01 - save then load reproduces the IR exactly (DESIGN 4, C01): the writer harness families of C02 judged by the round-trip oracle
(independent snapshot equality, deep_eq both ways, second generation)."""
from proto_h import *  # noqa: F401,F403
import proto_h as P
import c02 as _c02

BOUNDS = {"all": "the writer-side families of C02 (see there) composed with the loader: snapshot(load(save(ir))) == snapshot(ir), deep_eq in both directions, second generation"}
OUTSIDE = _c02.OUTSIDE


def shards(tier):
    return _c02._wr("roundtrip", tier) + [{"fn": "header", "consts": {"oracle": "roundtrip"}, "timeout": 300}]
