"""Loader harnesses: C09 (references are the attached objects themselves) and C17 (reject or return a coherent IR).

load = header check . ParseFromString . IR._from_protobuf.  ParseFromString is protobuf's: it either
raises or returns *some* message of the schema, so the symbolic / enumerated input of the structural
harnesses is the message.  The header is fully symbolic; wire-level corruption (truncation at every
cut point, every single-bit flip of a valid file) is enumerated position by position by the engine
(each path pins one corrupted file, as in C15).
"""
from typing import Optional
from uuid import UUID

from hbase import SHARD, CONCRETE, count, done, fail, pick, untraced

import chpatch
import gtirb
import forest_h as F
from gtirb.proto import IR_pb2
from gtirb.util import DeserializationError

PV = gtirb.version.PROTOBUF_VERSION


def U(i):
    return UUID(int=700 + i)


# node table of the reference message: name -> (uuid index, kind)
NODES = {
    "ir": (1, "IR"), "modA": (2, "Module"), "secA": (3, "Section"), "biA": (4, "ByteInterval"), "cbA": (5, "CodeBlock"), "dbA": (6, "DataBlock"),
    "pxA": (7, "ProxyBlock"), "syA1": (8, "Symbol"), "syA2": (9, "Symbol"), "modB": (12, "Module"), "secB": (13, "Section"), "biB": (14, "ByteInterval"),
    "cbB": (15, "CodeBlock"), "syB": (18, "Symbol"), "biC": (24, "ByteInterval"),
}
TARGETS = ["cbA", "dbA", "pxA", "syA1", "secA", "biA", "modA", "ir", "unknown", "nil"]
KIND_OF = {k: v[1] for k, v in NODES.items()}
REFS = ["referent", "entry_point", "edge_source", "edge_target", "const_symbol", "addr_symbol1", "addr_symbol2", "late_symbol"]
ALLOWED = {
    "referent": ("CodeBlock", "DataBlock", "ProxyBlock"), "entry_point": ("CodeBlock",), "edge_source": ("CodeBlock", "ProxyBlock"),
    "edge_target": ("CodeBlock", "ProxyBlock"), "const_symbol": ("Symbol",), "addr_symbol1": ("Symbol",), "addr_symbol2": ("Symbol",),
    "late_symbol": ("Symbol",),
}


def ub(name):
    if name == "unknown":
        return UUID(int=699).bytes
    if name == "nil":
        return bytes(16)                  # the nil UUID: names no node of the file
    return U(NODES[name][0]).bytes


def base_message(refs=None, aux=None):
    """A valid two-module message; `refs` overrides reference fields (name -> uuid bytes)."""
    refs = refs or {}
    msg = IR_pb2.IR()
    msg.uuid = ub("ir")
    msg.version = PV
    a = msg.modules.add()
    a.uuid = ub("modA")
    a.name = "A"
    s = a.sections.add()
    s.uuid = ub("secA")
    s.name = ".text"
    bi = s.byte_intervals.add()
    bi.uuid = ub("biA")
    bi.size = 8
    bi.has_address = True
    bi.address = 0x1000
    bi.contents = b"\x90\x90"
    b = bi.blocks.add()
    b.offset = 0
    b.code.uuid = ub("cbA")
    b.code.size = 2
    b = bi.blocks.add()
    b.offset = 2
    b.data.uuid = ub("dbA")
    b.data.size = 4
    a.proxies.add().uuid = ub("pxA")
    a.proxies.add().uuid = U(30).bytes               # a proxy and a symbol that nothing else in the file refers to
    y = a.symbols.add()
    y.uuid = U(31).bytes
    y.name = "loose"
    y = a.symbols.add()
    y.uuid = ub("syA1")
    y.name = "one"
    y.referent_uuid = refs.get("referent", ub("cbA"))
    y = a.symbols.add()
    y.uuid = ub("syA2")
    y.name = "two"
    y.referent_uuid = ub("cbA")                      # a second reference to the same node
    a.entry_point = refs.get("entry_point", ub("cbA"))
    e = bi.symbolic_expressions[0]
    e.addr_const.offset = 1
    e.addr_const.symbol_uuid = refs.get("const_symbol", ub("syA1"))
    e = bi.symbolic_expressions[4]
    e.addr_addr.scale = 1
    e.addr_addr.symbol1_uuid = refs.get("addr_symbol1", ub("syA2"))
    e.addr_addr.symbol2_uuid = refs.get("addr_symbol2", ub("syA1"))
    m = msg.modules.add()
    m.uuid = ub("modB")
    m.name = "B"
    s = m.sections.add()
    s.uuid = ub("secB")
    bi = s.byte_intervals.add()
    bi.uuid = ub("biB")
    bi.size = 1
    b = bi.blocks.add()
    b.code.uuid = ub("cbB")
    b.code.size = 1
    y = m.symbols.add()
    y.uuid = ub("syB")
    y.name = "b"
    y.value = 0
    # an expression of the later module naming a symbol of the earlier one (referentially closed, file order respected)
    e = bi.symbolic_expressions[0]
    e.addr_addr.scale = 2
    e.addr_addr.symbol1_uuid = ub("syA1")
    e.addr_addr.symbol2_uuid = ub("syB")
    # a third module without symbols of its own whose interval (size 0) holds an expression naming a symbol of the first module
    c = msg.modules.add()
    c.uuid = U(22).bytes
    c.name = "C"
    sc = c.sections.add()
    sc.uuid = U(23).bytes
    bc = sc.byte_intervals.add()
    bc.uuid = U(24).bytes
    bc.size = 0
    ec = bc.symbolic_expressions[0]
    ec.addr_const.offset = 3
    ec.addr_const.symbol_uuid = refs.get("late_symbol", ub("syA1"))
    ed = msg.cfg.edges.add()
    ed.source_uuid = refs.get("edge_source", ub("cbA"))
    ed.target_uuid = refs.get("edge_target", ub("pxA"))
    ed.label.type = 1
    ed = msg.cfg.edges.add()
    ed.source_uuid = ub("cbA")
    ed.target_uuid = ub("cbA")                       # self loop without label
    # the vertex list as a writer produces it, plus whatever the edges name (a foreign writer may list anything)
    for v in (ub("cbA"), ub("pxA"), ub("cbB"), refs.get("edge_source"), refs.get("edge_target")):
        if v is not None and v not in msg.cfg.vertices:
            msg.cfg.vertices.append(v)
    for (level, key, tname, data) in (aux or []):
        holder = msg if level == "ir" else msg.modules[0]
        holder.aux_data[key].type_name = tname
        holder.aux_data[key].data = data
    return msg


def contained(ir):
    """uuid -> node, by walking the containment tree (never through get_by_uuid)"""
    out = {ir.uuid: ir}
    for m in ir.modules:
        out[m.uuid] = m
        for p in m.proxies:
            out[p.uuid] = p
        for y in m.symbols:
            out[y.uuid] = y
        for s in m.sections:
            out[s.uuid] = s
            for bi in s.byte_intervals:
                out[bi.uuid] = bi
                for b in bi.blocks:
                    out[b.uuid] = b
    return out


def check_refs_identity(ir):
    """every reference of the loaded IR is the object reachable through containment"""
    tree = contained(ir)

    def same(x, what):
        if x is None:
            return None
        if tree.get(x.uuid) is not x:
            return "%s is not the attached object itself (uuid %s)" % (what, x.uuid)
        return None

    for m in ir.modules:
        why = same(m.entry_point, "entry point")
        if why:
            return why
        if m.entry_point is not None and not isinstance(m.entry_point, gtirb.CodeBlock):
            return "entry point is not a code block"
        for y in m.symbols:
            why = same(y.referent, "symbol referent")
            if why:
                return why
            if y.referent is not None and not isinstance(y.referent, gtirb.Block):
                return "symbol referent is not a block"
        for bi in m.byte_intervals:
            if len(bi.contents) > bi.size:
                return "stored bytes exceed the interval size"
            for k, e in bi.symbolic_expressions.items():
                for y in e.symbols:
                    if not isinstance(y, gtirb.Symbol):
                        return "expression symbol is not a symbol"
                    why = same(y, "expression symbol")
                    if why:
                        return why
    for e in ir.cfg:
        for n, what in ((e.source, "edge source"), (e.target, "edge target")):
            if not isinstance(n, gtirb.CfgNode):
                return "%s is not a CFG node" % what
            why = same(n, what)
            if why:
                return why
    return None


# ---------------------------------------------------------------------------
# C09
# ---------------------------------------------------------------------------
def _expect_ok(ref, tgt):
    return tgt not in ("unknown", "nil") and KIND_OF[tgt] in ALLOWED[ref]


def run_refs(choice):
    """choice: dict ref name -> target name"""
    refs = {r: ub(t) for r, t in choice.items()}
    msg = base_message(refs)
    ok = all(_expect_ok(r, t) for r, t in choice.items())
    try:
        ir = gtirb.IR._from_protobuf(msg, None)
    except DeserializationError:
        if ok:
            return "a referentially closed, well-typed file was rejected"
        return None
    except Exception as e:  # noqa: BLE001
        return "rejected with %s instead of DeserializationError" % type(e).__name__
    if not ok:
        return "a file with a dangling or ill-typed %s was loaded" % "/".join(sorted(choice))
    why = check_refs_identity(ir)
    if why:
        return why
    tree = contained(ir)
    want = {r: tree[UUID(bytes=refs[r])] for r in refs}
    modA = tree[U(2)]
    y1 = tree[U(8)]
    biA = tree[U(4)]
    got = {
        "referent": y1.referent, "entry_point": modA.entry_point,
        "const_symbol": biA.symbolic_expressions[0].symbol, "late_symbol": tree[U(24)].symbolic_expressions[0].symbol,
        "addr_symbol1": biA.symbolic_expressions[4].symbol1, "addr_symbol2": biA.symbolic_expressions[4].symbol2,
    }
    for r in refs:
        if r in got and got[r] is not want[r]:
            return "%s does not name the selected node" % r
    if "edge_source" in refs or "edge_target" in refs:
        src = tree[UUID(bytes=refs.get("edge_source", ub("cbA")))]
        dst = tree[UUID(bytes=refs.get("edge_target", ub("pxA")))]
        if not any(e.source is src and e.target is dst and e.label is not None for e in ir.cfg):
            return "edge endpoints do not name the selected nodes"
    if len(ir.cfg) != 2 and not (refs.get("edge_source") == ub("cbA") and refs.get("edge_target") == ub("cbA")):
        return "edge count"
    late = tree[U(24)].symbolic_expressions
    if list(late.keys()) != [0] or late[0].symbol is not tree[UUID(bytes=refs.get("late_symbol", ub("syA1")))]:
        return "expression of the symbol-less third module is missing or does not name the first module's symbol object"
    eb = tree[U(14)].symbolic_expressions[0]
    if eb.symbol1 is not tree[U(8)] or eb.symbol2 is not tree[U(18)]:
        return "expression of the second module does not name the first module's symbol object"
    return None


def refs1(r: int, t: int) -> bool:
    """
    pre: 0 <= r < len(REFS) and 0 <= t < len(TARGETS)
    post: __return__
    """
    ref = REFS[pick(r, len(REFS))]
    tgt = TARGETS[pick(t, len(TARGETS))]
    with untraced():
        why = run_refs({ref: tgt})
    if why:
        return fail("%s -> %s: %s" % (ref, tgt, why))
    count("scenarios")
    return done()


def refs2(r1: int, t1: int, r2: int, t2: int) -> bool:
    """
    pre: 0 <= r1 < len(REFS) and 0 <= t1 < len(TARGETS) and 0 <= r2 < len(REFS) and 0 <= t2 < len(TARGETS)
    pre: r1 < r2
    post: __return__
    """
    a, b = REFS[pick(r1, len(REFS))], REFS[pick(r2, len(REFS))]
    ta, tb = TARGETS[pick(t1, len(TARGETS))], TARGETS[pick(t2, len(TARGETS))]
    with untraced():
        why = run_refs({a: ta, b: tb}) if a != b else None
    if why:
        return fail("%s -> %s, %s -> %s: %s" % (a, ta, b, tb, why))
    count("scenarios")
    return done()


AUX_SHAPES = ["UUID", "Offset", "sequence<UUID>", "mapping<UUID,Offset>", "set<UUID>", "variant<string,UUID>", "sequence<variant<Offset,bool>>"]


def aux_refs(level: int, shape: int, t: int, disp: int) -> bool:
    """
    pre: 0 <= level < 2 and 0 <= shape < len(AUX_SHAPES) and 0 <= t < len(TARGETS) + 3
    pre: 0 <= disp < 2**64
    post: __return__
    """
    lv = ("ir", "module")[pick(level, 2)]
    sh = AUX_SHAPES[pick(shape, len(AUX_SHAPES))]
    ti = pick(t, len(TARGETS) + 3)
    names = TARGETS + ["cbB", "syB", "biC"]            # biC: an interval of size 0
    tgt = names[ti]
    with untraced():
        u = ub(tgt)
        d8 = bytes(8)
        one = (1).to_bytes(8, "little")
        data = {"UUID": u, "Offset": u + d8, "sequence<UUID>": (2).to_bytes(8, "little") + u + u,
                "mapping<UUID,Offset>": one + u + u + d8, "set<UUID>": one + u,
                "variant<string,UUID>": one + u, "sequence<variant<Offset,bool>>": one + bytes(8) + u + d8}[sh]
        msg = base_message(aux=[(lv, "t", sh, data)])
        why = None
        try:
            ir = gtirb.IR._from_protobuf(msg, None)
        except Exception as e:  # noqa: BLE001
            ir = None
            why = "a loadable file was rejected: %s" % type(e).__name__
        if ir is not None:
            holder = ir if lv == "ir" else [m for m in ir.modules if m.uuid == U(2)][0]
            v = holder.aux_data["t"].data
            tree = contained(ir)
            node = tree.get(UUID(bytes=u))
            # module-level tables of module A are decoded when read: by then every node of the IR is attached
            want_node = node is not None
            if sh == "UUID":
                got = [v]
            elif sh == "variant<string,UUID>":
                got = [v.val]
            elif sh == "sequence<variant<Offset,bool>>":
                got = [v[0].val.element_id]
            elif sh == "Offset":
                got = [v.element_id]
            elif sh == "sequence<UUID>":
                got = list(v)
            elif sh == "set<UUID>":
                got = list(v)
            else:
                got = list(v.keys()) + [x.element_id for x in v.values()]
            for g in got:
                if want_node:
                    if g is not node:
                        why = "AuxData entry naming an attached node is not that object"
                else:
                    if not (isinstance(g, UUID) and g.bytes == u):
                        why = "AuxData entry naming no attached node is not a plain UUID"
            if why is None:
                # the same file loaded a second time: its tables resolve to ITS nodes, also right after the first IR's were read
                irb = gtirb.IR._from_protobuf(base_message(aux=[(lv, "t", sh, data)]), None)
                hb = irb if lv == "ir" else [m for m in irb.modules if m.uuid == U(2)][0]
                vb = hb.aux_data["t"].data
                treeb = contained(irb)
                nodeb = treeb.get(UUID(bytes=u))
                if sh == "UUID":
                    gotb = [vb]
                elif sh == "variant<string,UUID>":
                    gotb = [vb.val]
                elif sh == "sequence<variant<Offset,bool>>":
                    gotb = [vb[0].val.element_id]
                elif sh == "Offset":
                    gotb = [vb.element_id]
                elif sh in ("sequence<UUID>", "set<UUID>"):
                    gotb = list(vb)
                else:
                    gotb = list(vb.keys()) + [x.element_id for x in vb.values()]
                for g in gotb:
                    if nodeb is not None and g is not nodeb:
                        why = "second load of the same file: AuxData entry is not the second IR's own node"
                    if nodeb is None and not (isinstance(g, UUID) and g.bytes == u):
                        why = "second load: entry naming no attached node is not a plain UUID"
    if why:
        return fail("aux %s at %s -> %s: %s" % (sh, lv, tgt, why))
    count("scenarios")
    return done()


# ---------------------------------------------------------------------------
# C17: header, version, wire-level corruption, structural faults
# ---------------------------------------------------------------------------
class _HeaderStream:
    """first bytes symbolic, remainder concrete: read(n) / read() exactly as a binary file object"""

    def __init__(self, head, tail):
        self.head = head
        self.tail = tail
        self.pos = 0

    def read(self, n=-1):
        hl = len(self.head)
        if n is None or n < 0:
            if self.pos >= hl:
                out = self.tail[self.pos - hl:]
                self.pos = hl + len(self.tail)
                return out
            out = self.head[self.pos:] + self.tail
            self.pos = hl + len(self.tail)
            return out
        if self.pos + n <= hl:
            out = self.head[self.pos:self.pos + n]
        elif self.pos >= hl:
            out = self.tail[self.pos - hl:self.pos - hl + n]
        else:
            out = self.head[self.pos:] + self.tail[:n - (hl - self.pos)]
        self.pos += len(out)
        return out


_VALID_TAIL = None


def _valid_tail():
    global _VALID_TAIL
    if _VALID_TAIL is None:
        _VALID_TAIL = base_message().SerializeToString()
    return _VALID_TAIL


def header(h: bytes) -> bool:
    """
    pre: len(h) == SHARD["n"]
    post: __return__
    """
    n = SHARD["n"]
    with untraced():
        tail = _valid_tail() if n == 8 else b""
    good = n == 8 and h[0] == 71 and h[1] == 84 and h[2] == 73 and h[3] == 82 and h[4] == 66 and h[7] == PV
    stream = _HeaderStream(h, tail) if not CONCRETE else __import__("io").BytesIO(bytes(h) + tail)
    try:
        ir = gtirb.IR.load_protobuf_file(stream)
    except ValueError:
        if good:
            return fail("a file with a correct header and a valid message was rejected")
        return done()
    if not good:
        return fail("a file whose magic or version byte is wrong was loaded")
    with untraced():
        why = coherent(ir)
    if why:
        return fail(why)
    return done()


def msg_version(v: int) -> bool:
    """
    pre: 0 <= v < 2**32
    post: __return__
    """
    with untraced():
        msg = base_message()
    msg.version = v
    try:
        gtirb.IR._from_protobuf(msg, None)
    except ValueError:
        if v == PV:
            return fail("message with the right version rejected")
        return done()
    if v != PV:
        return fail("message with a different version field was loaded")
    return done()


def all_contained(ir):
    out = [ir]
    for m in ir.modules:
        out.append(m)
        out += list(m.proxies) + list(m.symbols)
        for s in m.sections:
            out.append(s)
            for bi in s.byte_intervals:
                out.append(bi)
                out += list(bi.blocks)
    return out


def file_version(v: int) -> bool:
    """
    pre: 0 <= v < 8
    post: __return__
    """
    # whole-file path: correct header, otherwise valid message whose version field is v (0 = field absent in proto3)
    x = (0, 1, 2, 3, 4, 5, 255, 2 ** 32 - 1)[pick(v, 8)]
    with untraced():
        import io

        msg = base_message()
        msg.version = x
        data = b"GTIRB\x00\x00" + bytes([PV]) + msg.SerializeToString()
        why = None
        try:
            ir = gtirb.IR.load_protobuf_file(io.BytesIO(data))
            if x != PV:
                why = "a file whose message carries version %d was loaded (as version %r)" % (x, ir.version)
            elif ir.version != PV:
                why = "version attribute"
        except ValueError:
            if x == PV:
                why = "a file produced with the right version was rejected"
        except Exception as e:  # noqa: BLE001
            why = "rejected with %s, not ValueError" % type(e).__name__
    if why:
        return fail(why)
    return done()


def ref_fault(r: int, t: int) -> bool:
    """
    pre: 0 <= r < len(REFS) and 0 <= t < len(TARGETS) + 3
    post: __return__
    """
    # a single dangling / ill-typed / wrong-length reference: reject, or return a coherent IR
    ref = REFS[pick(r, len(REFS))]
    ti = pick(t, len(TARGETS) + 3)
    with untraced():
        if ti < len(TARGETS):
            val = ub(TARGETS[ti])
            name = TARGETS[ti]
        else:
            val = (b"", bytes(15), bytes(17))[ti - len(TARGETS)]
            name = "len%d" % len(val)
        msg = base_message({ref: val})
        why = None
        try:
            ir = gtirb.IR._from_protobuf(msg, None)
        except Exception:  # noqa: BLE001
            ir = None
        if ir is not None:
            why = coherent(ir)
    if why:
        return fail("%s := %s: %s" % (ref, name, why))
    count("scenarios")
    return done()


def coherent(ir):
    """C17 post: C03 and C04 hold, typed references, bytes within size, can be saved again"""
    if not isinstance(ir, gtirb.IR):
        return "load returned %r" % type(ir).__name__
    pool = all_contained(ir)
    for i in range(len(pool)):
        for j in range(i):
            if pool[i] is not pool[j] and pool[i].uuid == pool[j].uuid:
                return "two attached nodes share UUID %s (%s and %s): get_by_uuid cannot resolve both" % (
                    pool[i].uuid, type(pool[i]).__name__, type(pool[j]).__name__)
    extra = []
    for m in ir.modules:
        for y in m.symbols:
            if y.referent is not None:
                extra.append(y.referent)
            if y.value is not None and not isinstance(y.value, int):
                return "symbol value is a %s, not an integer" % type(y.value).__name__
            if y._payload is not None and y.value is None and y.referent is None:
                return "symbol payload is neither an integer nor a block"
        if m.entry_point is not None:
            extra.append(m.entry_point)
    for e in ir.cfg:
        extra += [e.source, e.target]
    for x in extra:
        if not any(x is p for p in pool):
            pool.append(x)
    why = F.check_forest(pool) or F.check_cache(pool, [ir]) or check_refs_identity(ir)
    if why:
        return why
    try:
        ir._to_protobuf().SerializeToString()
    except Exception as e:  # noqa: BLE001
        return "the returned IR cannot be saved again: %s" % type(e).__name__
    return None


def corrupt(pos: int, bit: int) -> bool:
    """
    pre: 0 <= pos < SHARD["hi"] - SHARD["lo"]
    pre: 0 <= bit < 9
    post: __return__
    """
    p = SHARD["lo"] + pick(pos, SHARD["hi"] - SHARD["lo"])
    b = pick(bit, 9)
    with untraced():
        import io

        good = b"GTIRB\x00\x00" + bytes([PV]) + _valid_tail()
        if p >= len(good):
            return done()
        if b == 8:
            data = good[:p]                                   # truncation at cut point p
        else:
            data = good[:p] + bytes([good[p] ^ (1 << b)]) + good[p + 1:]
        why = None
        try:
            ir = gtirb.IR.load_protobuf_file(io.BytesIO(data))
        except Exception as e:  # noqa: BLE001
            ir = None
            if p < 5 or (p == 7) or (b == 8 and p < 8):
                if not isinstance(e, ValueError):
                    why = "bad header rejected with %s, not ValueError" % type(e).__name__
        if ir is not None:
            if b != 8 and (p < 5 or p == 7):
                why = "file with corrupted magic/version byte was loaded"
            elif b == 8 and p < 8:
                why = "file truncated inside the header was loaded"
            else:
                why = coherent(ir)
    if why:
        return fail("byte %d %s: %s" % (p, "truncated" if b == 8 else "bit %d flipped" % b, why))
    count("corruptions")
    return done()


UUID_FIELDS = ["ir", "modA", "secA", "biA", "cbA", "dbA", "pxA", "syA1", "modB", "secB", "biB", "cbB", "syB"]
UUID_VALUES = ["cbA", "dbA", "pxA", "syA1", "syA2", "secA", "biA", "modA", "ir", "modB", "secB", "biB", "cbB", "syB", "unknown", "len0", "len15", "len17"]
OTHER_FAULTS = ["none", "size_lt_contents", "block_no_kind", "expr_no_kind", "enum_isa", "enum_ff", "enum_bo", "enum_flag", "enum_dm", "enum_edge",
                "enum_attr", "dup_module_entry", "empty_name", "entry_other_module", "referent_later_module", "contents_eq_size", "vertices_garbage",
                "symbol_both_payloads", "two_sections_same_interval", "version_zero", "dup_proxy_later_module", "dup_symbol_later_module",
                "dup_proxy_same_module", "dup_section_later_module", "sibling_code_dup", "sibling_data_dup", "sibling_code_dup_unref"]


def _uv(name):
    if name == "len0":
        return b""
    if name == "len15":
        return bytes(15)
    if name == "len17":
        return bytes(17)
    return ub(name)


def _set_uuid(msg, field, value):
    a, b = msg.modules[0], msg.modules[1]
    if field == "ir":
        msg.uuid = value
    elif field == "modA":
        a.uuid = value
    elif field == "secA":
        a.sections[0].uuid = value
    elif field == "biA":
        a.sections[0].byte_intervals[0].uuid = value
    elif field == "cbA":
        a.sections[0].byte_intervals[0].blocks[0].code.uuid = value
    elif field == "dbA":
        a.sections[0].byte_intervals[0].blocks[1].data.uuid = value
    elif field == "pxA":
        a.proxies[0].uuid = value
    elif field == "syA1":
        a.symbols[1].uuid = value
    elif field == "modB":
        b.uuid = value
    elif field == "secB":
        b.sections[0].uuid = value
    elif field == "biB":
        b.sections[0].byte_intervals[0].uuid = value
    elif field == "cbB":
        b.sections[0].byte_intervals[0].blocks[0].code.uuid = value
    elif field == "syB":
        b.symbols[0].uuid = value


def _apply_other(msg, fault, num):
    a, b = msg.modules[0], msg.modules[1]
    bi = a.sections[0].byte_intervals[0]
    if fault == "size_lt_contents":
        bi.size = 1
    elif fault == "contents_eq_size":
        bi.size = 2
    elif fault == "block_no_kind":
        bi.blocks.add().offset = 3
    elif fault == "expr_no_kind":
        bi.symbolic_expressions[7].attribute_flags.append(1)
    elif fault == "enum_isa":
        a.isa = num
    elif fault == "enum_ff":
        a.file_format = num
    elif fault == "enum_bo":
        a.byte_order = num
    elif fault == "enum_flag":
        a.sections[0].section_flags.append(num)
    elif fault == "enum_dm":
        bi.blocks[0].code.decode_mode = num
    elif fault == "enum_edge":
        msg.cfg.edges[0].label.type = num
    elif fault == "enum_attr":
        bi.symbolic_expressions[0].attribute_flags.append(num)
    elif fault == "dup_module_entry":
        msg.modules.add().CopyFrom(a)
    elif fault == "empty_name":
        a.name = ""
        a.symbols[1].name = ""
    elif fault == "entry_other_module":
        b.entry_point = ub("cbA")
    elif fault == "referent_later_module":
        a.symbols[1].referent_uuid = ub("cbB")
    elif fault == "vertices_garbage":
        msg.cfg.vertices.append(b"xyz")
    elif fault == "symbol_both_payloads":
        a.symbols[2].value = 5                       # one-of: the later assignment wins in the message
    elif fault == "two_sections_same_interval":
        s2 = a.sections.add()
        s2.uuid = UUID(int=650).bytes
        s2.byte_intervals.add().CopyFrom(bi)
    elif fault == "version_zero":
        msg.version = 0
    elif fault == "dup_proxy_later_module":
        b.proxies.add().uuid = U(30).bytes            # same kind, same UUID as an unreferenced proxy of the earlier module
    elif fault == "dup_symbol_later_module":
        y = b.symbols.add()
        y.uuid = U(31).bytes
        y.name = "again"
    elif fault == "dup_proxy_same_module":
        a.proxies.add().uuid = U(30).bytes
    elif fault == "dup_section_later_module":
        s3 = msg.modules[2].sections.add()
        s3.uuid = ub("secB")
    elif fault in ("sibling_code_dup", "sibling_data_dup", "sibling_code_dup_unref"):
        # two blocks of ONE interval (same kind) carrying one UUID
        nb = bi.blocks.add()
        nb.offset = 6
        if fault == "sibling_code_dup":
            nb.code.uuid = ub("cbA")
            nb.code.size = 1
        elif fault == "sibling_data_dup":
            nb.data.uuid = ub("dbA")
            nb.data.size = 1
        else:
            nb.code.uuid = UUID(int=651).bytes
            nb.code.size = 1
            nb = bi.blocks.add()
            nb.offset = 7
            nb.code.uuid = UUID(int=651).bytes
            nb.code.size = 1


def run_fault(field, value, fault, num):
    msg = base_message()
    if field is not None:
        _set_uuid(msg, field, _uv(value))
    _apply_other(msg, fault, num)
    # the message must survive protobuf's own codec (it is what ParseFromString would hand over)
    wire = msg.SerializeToString()
    msg2 = IR_pb2.IR()
    msg2.ParseFromString(wire)
    try:
        ir = gtirb.IR._from_protobuf(msg2, None)
    except Exception as e:  # noqa: BLE001
        if fault == "version_zero" and not isinstance(e, ValueError):
            return "wrong message version rejected with %s, not ValueError" % type(e).__name__
        if field is None and fault in ("none", "empty_name", "contents_eq_size", "entry_other_module", "vertices_garbage", "symbol_both_payloads"):
            return "a valid file was rejected: %s: %s" % (type(e).__name__, str(e)[:80])
        return None
    if fault == "version_zero":
        return "message with version 0 was loaded"
    return coherent(ir)


def fault1(f: int, v: int, o: int, num: int) -> bool:
    """
    pre: 0 <= f < len(UUID_FIELDS) + 1 and 0 <= v < len(UUID_VALUES) and 0 <= o < len(OTHER_FAULTS)
    pre: 0 <= num < 70
    post: __return__
    """
    fi = pick(f, len(UUID_FIELDS) + 1)
    field = None if fi == len(UUID_FIELDS) else UUID_FIELDS[fi]
    two = SHARD["two"]
    oi = pick(o, len(OTHER_FAULTS)) if (two or field is None) else 0
    vi = pick(v, len(UUID_VALUES)) if field is not None else 0
    fault = OTHER_FAULTS[oi]
    n = 0
    if fault.startswith("enum_"):
        n = (0, 1, 2, 5, 6, 7, 11, 12, 27, 69)[pick(num % 10, 10)]
    with untraced():
        why = run_fault(field, UUID_VALUES[vi], fault, n)
    if why:
        return fail("uuid field %s := %s, fault %s(%d): %s" % (field, UUID_VALUES[vi], fault, n, why))
    count("scenarios")
    return done()
