"""Reference implementation of the GTIRB AuxData serialization format.

Written from AuxData.md ("Serialization Format"), the `auxdata_traits`
specialisations in include/gtirb/AuxData.hpp and the Java codecs; shares no
code with python/gtirb.  Type trees are nested tuples (name, (subtrees...)).

  integers / Addr : fixed width, little endian, two's complement
  bool            : one byte, 0 or 1
  float / double  : IEEE-754 little endian
  UUID            : 16 raw bytes (big-endian RFC 4122 byte order, as UUID.bytes)
  Offset          : UUID then uint64 displacement
  string          : uint64 count of UTF-8 *bytes*, then the bytes
  sequence/set    : uint64 element count, then elements
  mapping         : uint64 entry count, then key, value pairs
  tuple           : fields in order, no prefix
  variant         : uint64 alternative index, then that alternative
"""
import struct
from uuid import UUID

INTS = {
    "uint8_t": (1, False), "uint16_t": (2, False), "uint32_t": (4, False), "uint64_t": (8, False),
    "Addr": (8, False),
    "int8_t": (1, True), "int16_t": (2, True), "int32_t": (4, True), "int64_t": (8, True),
}


def render(t):
    name, subs = t
    if not subs:
        return name
    return name + "<" + ",".join(render(s) for s in subs) + ">"


def int_range(name):
    n, signed = INTS[name]
    if signed:
        return -(2 ** (8 * n - 1)), 2 ** (8 * n - 1)
    return 0, 2 ** (8 * n)


def le_value(b, n, signed):
    """Value denoted by the n little-endian bytes b[0:n] (linear in the bytes)."""
    tot = 0
    for i in range(n):
        tot = tot + b[i] * (256 ** i)
    if signed and b[n - 1] >= 128:
        tot = tot - 256 ** n
    return tot


def le_bytes_concrete(v, n):
    """Little-endian bytes of a *concrete* non-negative int (counts, indices)."""
    return bytes([(v >> (8 * i)) & 0xFF for i in range(n)])


def utf8(s):
    """Independent UTF-8 encoder (list of byte values)."""
    out = []
    for ch in s:
        c = ord(ch)
        if c < 0x80:
            out.append(c)
        elif c < 0x800:
            out.append(0xC0 + c // 64)
            out.append(0x80 + c % 64)
        elif c < 0x10000:
            out.append(0xE0 + c // 4096)
            out.append(0x80 + (c // 64) % 64)
            out.append(0x80 + c % 64)
        else:
            out.append(0xF0 + c // 262144)
            out.append(0x80 + (c // 4096) % 64)
            out.append(0x80 + (c // 64) % 64)
            out.append(0x80 + c % 64)
    return out


def utf8_len(s):
    n = 0
    for ch in s:
        c = ord(ch)
        if c < 0x80:
            n += 1
        elif c < 0x800:
            n += 2
        elif c < 0x10000:
            n += 3
        else:
            n += 4
    return n


# ---- concrete reference encoder / decoder (used on concrete values and in replays) ------
def ref_encode(t, v):
    name, subs = t
    if name in INTS:
        n, signed = INTS[name]
        w = v + 256 ** n if v < 0 else v
        return le_bytes_concrete(w, n)
    if name == "bool":
        return b"\x01" if v else b"\x00"
    if name == "float":
        return struct.pack("<f", v)
    if name == "double":
        return struct.pack("<d", v)
    if name == "UUID":
        u = v if isinstance(v, UUID) else v.uuid
        return u.bytes
    if name == "Offset":
        u = v[0] if isinstance(v[0], UUID) else v[0].uuid
        return u.bytes + le_bytes_concrete(v[1], 8)
    if name == "string":
        b = bytes(utf8(v))
        return le_bytes_concrete(len(b), 8) + b
    if name in ("sequence", "set"):
        out = le_bytes_concrete(len(v), 8)
        for e in v:
            out += ref_encode(subs[0], e)
        return out
    if name == "mapping":
        out = le_bytes_concrete(len(v), 8)
        for k, e in v.items():
            out += ref_encode(subs[0], k) + ref_encode(subs[1], e)
        return out
    if name == "tuple":
        assert len(v) == len(subs)
        out = b""
        for s, e in zip(subs, v):
            out += ref_encode(s, e)
        return out
    if name == "variant":
        return le_bytes_concrete(v.index, 8) + ref_encode(subs[v.index], v.val)
    raise KeyError(name)


def ref_decode(t, b, pos=0, mk_variant=None):
    """-> (value, new position); UUIDs are returned as plain uuid.UUID."""
    name, subs = t
    if name in INTS:
        n, signed = INTS[name]
        return le_value(b[pos:pos + n], n, signed), pos + n
    if name == "bool":
        return b[pos] != 0, pos + 1
    if name == "float":
        return struct.unpack("<f", bytes(b[pos:pos + 4]))[0], pos + 4
    if name == "double":
        return struct.unpack("<d", bytes(b[pos:pos + 8]))[0], pos + 8
    if name == "UUID":
        return UUID(bytes=bytes(b[pos:pos + 16])), pos + 16
    if name == "Offset":
        return (UUID(bytes=bytes(b[pos:pos + 16])), le_value(b[pos + 16:pos + 24], 8, False)), pos + 24
    if name == "string":
        n = le_value(b[pos:pos + 8], 8, False)
        return bytes(b[pos + 8:pos + 8 + n]).decode("utf-8"), pos + 8 + n
    if name in ("sequence", "set"):
        n = le_value(b[pos:pos + 8], 8, False)
        pos += 8
        out = []
        for _ in range(n):
            e, pos = ref_decode(subs[0], b, pos, mk_variant)
            out.append(e)
        return (out if name == "sequence" else set(out)), pos
    if name == "mapping":
        n = le_value(b[pos:pos + 8], 8, False)
        pos += 8
        out = {}
        for _ in range(n):
            k, pos = ref_decode(subs[0], b, pos, mk_variant)
            e, pos = ref_decode(subs[1], b, pos, mk_variant)
            out[k] = e
        return out, pos
    if name == "tuple":
        out = []
        for s in subs:
            e, pos = ref_decode(s, b, pos, mk_variant)
            out.append(e)
        return tuple(out), pos
    if name == "variant":
        i = le_value(b[pos:pos + 8], 8, False)
        e, pos = ref_decode(subs[i], b, pos + 8, mk_variant)
        return (mk_variant(i, e) if mk_variant else (i, e)), pos
    raise KeyError(name)
