"""C06 - interval and section lookups and section extents equal a fresh scan (DESIGN 4, C06)."""
from index_h import *  # noqa: F401,F403
import c05 as _c05
import c12 as _c12

BOUNDS = {
    "quick": "two intervals with Optional addresses and sizes in [0,2^64-1) (symbolic) in one section; byte_intervals_on/at at section/module/IR scope, sections_on/at, "
             "Section.address/size, empty section; range/stepped/point queries; histories of <= 2 edits over {address=, address=None, size=, discard, add, move to other section} "
             "with index reads before every edit or never, ballast 3/4",
    "thorough": "histories of <= 3 edits, ballast 0/3/5",
}
OUTSIDE = "more than two symbolic intervals per section; values equal to 2^64-1 (ballast); the real intervaltree (replay only); load as a history step"
ASSUMPTIONS = _c05.ASSUMPTIONS


def shards(tier):
    out = []
    for q in ("range", "step", "point"):
        for scope in ("section", "module", "ir"):
            for n1, n2 in ((0, 0), (1, 0), (0, 1), (1, 1)):
                out.append({"fn": "sec_two", "consts": {"q": q, "scope": scope, "none1": n1, "none2": n2}, "timeout": 1200})
    out += _c12.sec_history_shards(tier, "sec_hist", False)
    return out
