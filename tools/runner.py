"""Run ONE shard (harness function + shard constants) in this process and print one JSON line.

modes:
  sym     symbolic exploration with CrossHair (verdict CONFIRMED / REFUTED / INCONCLUSIVE)
  twin    same, with the reachability twin switched on (must be REFUTED)
  cover   CrossHair path_cover: one concrete argument vector per explored path (witnesses)
  replay  concrete re-execution of the harness on given arguments, every stub off
          (VERIF_CONCRETE=1 must be set in the environment by the caller)

Environment: PYTHONPATH must start with <stage>:<verif>/harness:<verif>/tools.
"""
import argparse
import ast
import collections
import importlib
import json
import os
import sys
import time
import traceback


def _jsonable(x):
    if isinstance(x, (type(None), bool, int, float, str)):
        return x
    if isinstance(x, (bytes, bytearray)):
        return {"__bytes__": list(bytes(x))}
    if isinstance(x, (list, tuple)):
        return {"__tuple__" if isinstance(x, tuple) else "__list__": [_jsonable(i) for i in x]}
    if isinstance(x, dict):
        return {"__dict__": [[_jsonable(k), _jsonable(v)] for k, v in x.items()]}
    if isinstance(x, (set, frozenset)):
        return {"__set__": [_jsonable(i) for i in x]}
    return {"__repr__": repr(x)}


def _unjson(x):
    if isinstance(x, dict):
        if "__bytes__" in x:
            return bytes(x["__bytes__"])
        if "__tuple__" in x:
            return tuple(_unjson(i) for i in x["__tuple__"])
        if "__list__" in x:
            return [_unjson(i) for i in x["__list__"]]
        if "__dict__" in x:
            return {_unjson(k): _unjson(v) for k, v in x["__dict__"]}
        if "__set__" in x:
            return set(_unjson(i) for i in x["__set__"])
        if "__float__" in x:
            return float(x["__float__"])
        raise ValueError("cannot rebuild %r" % (x,))
    return x


def _jsonable_arg(x):
    if isinstance(x, float):
        return {"__float__": repr(x)} if (x != x or x in (float("inf"), float("-inf"))) else x
    return _jsonable(x)


def parse_call(message, fname):
    """Extract the argument values of `fname(...)` from a CrossHair message."""
    key = fname + "("
    i = message.find(key)
    if i < 0:
        return None
    s = message[i:]
    for k in range(len(key), len(s) + 1):
        if s[k - 1] != ")":
            continue
        try:
            node = ast.parse(s[:k], mode="eval").body
        except SyntaxError:
            continue
        if not isinstance(node, ast.Call):
            continue
        env = {"nan": float("nan"), "inf": float("inf"), "float": float, "bytearray": bytearray}
        try:
            args = [eval(compile(ast.Expression(a), "<cex>", "eval"), env) for a in node.args]
            kwargs = {
                kw.arg: eval(compile(ast.Expression(kw.value), "<cex>", "eval"), env)
                for kw in node.keywords
            }
        except Exception:
            return None
        return args, kwargs
    return None


def bind(fn, args, kwargs):
    import inspect

    ba = inspect.signature(fn).bind(*args, **kwargs)
    ba.apply_defaults()
    return dict(ba.arguments)


def get_conditions(fn):
    """(preconditions, allowed exception types) from the PEP316 docstring."""
    from crosshair.condition_parser import Pep316Parser
    from crosshair.fnutil import FunctionInfo

    conds = Pep316Parser().get_fn_conditions(FunctionInfo.from_fn(fn))
    if conds is None:
        return [], ()
    return list(conds.pre), tuple(conds.raises)


def main():
    ap = argparse.ArgumentParser()
    ap.add_argument("--harness", required=True)
    ap.add_argument("--fn", required=True)
    ap.add_argument("--consts", default="{}")
    ap.add_argument("--mode", default="sym")
    ap.add_argument("--timeout", type=float, default=300.0)
    ap.add_argument("--path-timeout", type=float, default=60.0)
    ap.add_argument("--args", default=None)
    ap.add_argument("--seed", type=int, default=0)
    ap.add_argument("--max-witnesses", type=int, default=40)
    a = ap.parse_args()

    out = {"harness": a.harness, "fn": a.fn, "consts": json.loads(a.consts), "mode": a.mode}
    t0 = time.time()
    try:
        if a.mode in ("replay", "replay-batch"):
            assert os.environ.get("VERIF_CONCRETE") == "1"
        import chpatch  # noqa: F401  (before gtirb)
        import hbase

        hbase.SHARD.clear()
        hbase.SHARD.update(out["consts"])
        import gtirb

        chpatch.install_det_sets()
        mod = importlib.import_module(a.harness)

        out["gtirb_file"] = gtirb.__file__
        stage = os.environ.get("VERIF_STAGE")
        if stage and not os.path.abspath(gtirb.__file__).startswith(os.path.abspath(stage)):
            raise RuntimeError("gtirb imported from %s, not from the stage %s" % (gtirb.__file__, stage))
        fn = getattr(mod, a.fn)
        if hasattr(mod, "setup"):
            mod.setup()

        if a.mode == "replay":
            raw = json.loads(a.args)
            kwargs = {k: _unjson(v) for k, v in raw.items()}
            del hbase.LAST_FAIL[:]
            prof_funcs = set()
            if os.environ.get("VERIF_PROFILE") == "1":
                def _prof(frame, event, arg):
                    if event == "call":
                        fnm = frame.f_code.co_filename
                        if "/gtirb/" in fnm and "/proto/" not in fnm:
                            prof_funcs.add(os.path.basename(fnm)[:-3] + "." + frame.f_code.co_qualname)
                sys.setprofile(_prof)
            _pres, allowed = get_conditions(fn)
            try:
                r = fn(**kwargs)
                out["returned"] = bool(r)
                out["exception"] = None
            except Exception as e:  # noqa: BLE001
                out["returned"] = None
                out["exception"] = type(e).__name__ + ": " + str(e)[:300]
                out["exception_allowed"] = isinstance(e, allowed) if allowed else False
                out["trace"] = traceback.format_exc()[-1500:]
            finally:
                sys.setprofile(None)
            out["fail_reasons"] = list(hbase.LAST_FAIL)
            out["functions"] = sorted(prof_funcs)
            out["known_hits"] = [list(h) for h in hbase.KNOWN_HITS[:50]]
        elif a.mode == "replay-batch":
            wits = json.loads(sys.stdin.read())
            pres, allowed = get_conditions(fn)
            prof_funcs = set()

            def _prof(frame, event, arg):
                if event == "call":
                    fnm = frame.f_code.co_filename
                    if "/gtirb/" in fnm and "/proto/" not in fnm:
                        prof_funcs.add(os.path.basename(fnm)[:-3] + "." + frame.f_code.co_qualname)

            agreed = 0
            skipped = 0
            dis = []
            samples = []
            for raw in wits:
                try:
                    kwargs = {k: _unjson(v) for k, v in raw.items()}
                except Exception:  # noqa: BLE001
                    skipped += 1
                    continue
                ok_pre = True
                for c in pres:
                    try:
                        if not c.evaluate(dict(kwargs)):
                            ok_pre = False
                            break
                    except Exception:  # noqa: BLE001
                        ok_pre = False
                        break
                if not ok_pre:
                    skipped += 1
                    continue
                del hbase.LAST_FAIL[:]
                if os.environ.get("VERIF_PROFILE") == "1":
                    sys.setprofile(_prof)
                try:
                    r = fn(**kwargs)
                    exc = None
                except Exception as e:  # noqa: BLE001
                    r = None
                    exc = e
                finally:
                    sys.setprofile(None)
                if exc is not None:
                    if allowed and isinstance(exc, allowed):
                        agreed += 1
                    else:
                        dis.append({"args": raw, "exception": type(exc).__name__ + ": " + str(exc)[:200]})
                elif r:
                    agreed += 1
                    if len(samples) < 3:
                        samples.append(raw)
                else:
                    dis.append({"args": raw, "fail": list(hbase.LAST_FAIL)})
            out.update(agreed=agreed, skipped_pre=skipped, disagreements=dis[:10], functions=sorted(prof_funcs), samples=samples)
        elif a.mode in ("sym", "twin"):
            hbase.TWIN = a.mode == "twin"
            chpatch.warm_up()
            import z3
            from crosshair.core_and_libs import analyze_function, run_checkables
            from crosshair.options import AnalysisOptionSet
            from crosshair.statespace import MessageType

            zstats = {"checks": 0, "time": 0.0}
            _orig_check = z3.Solver.check

            def _check(self, *assumptions):
                t = time.perf_counter()
                try:
                    return _orig_check(self, *assumptions)
                finally:
                    zstats["checks"] += 1
                    zstats["time"] += time.perf_counter() - t

            z3.Solver.check = _check
            import random

            random.seed(a.seed)
            opts = AnalysisOptionSet(
                per_condition_timeout=a.timeout,
                per_path_timeout=a.path_timeout,
                max_uninteresting_iterations=10 ** 9,
                report_all=True,
            )
            stats = collections.Counter()
            checkables = analyze_function(fn, opts)
            for c in checkables:
                if hasattr(c, "options"):
                    c.options.stats = stats
            msgs = list(run_checkables(checkables))
            out["messages"] = [{"state": m.state.name, "message": m.message[:2000]} for m in msgs]
            states = [m.state for m in msgs]
            verdict = "INCONCLUSIVE"
            if not msgs:
                verdict = "INCONCLUSIVE"
            elif any(s in (MessageType.POST_FAIL, MessageType.EXEC_ERR, MessageType.POST_ERR) for s in states):
                verdict = "REFUTED"
            elif all(s == MessageType.CONFIRMED for s in states):
                verdict = "CONFIRMED"
            elif any(s == MessageType.PRE_UNSAT for s in states):
                verdict = "PRE_UNSAT"
            out["verdict"] = verdict
            if verdict == "REFUTED":
                for m in msgs:
                    if m.state in (MessageType.POST_FAIL, MessageType.EXEC_ERR, MessageType.POST_ERR):
                        pc = parse_call(m.message, a.fn)
                        if pc is not None:
                            try:
                                bound = bind(fn, *pc)
                                out["cex"] = {k: _jsonable_arg(v) for k, v in bound.items()}
                            except Exception as e:  # noqa: BLE001
                                out["cex_error"] = repr(e)
                        out["cex_message"] = m.message[:2000]
                        break
            out["paths"] = int(stats.get("num_paths", 0))
            out["stats"] = {k: int(v) for k, v in stats.items()}
            out["z3_checks"] = zstats["checks"]
            out["z3_time"] = round(zstats["time"], 3)
            out["known_hits"] = [list(h) for h in hbase.KNOWN_HITS[:200]]
            out["known_hit_count"] = len(hbase.KNOWN_HITS)
            out["counters"] = dict(hbase.COUNTERS)
            out["patches"] = list(chpatch.ACTIVE)
        elif a.mode == "cover":
            chpatch.warm_up()
            import crosshair.core_and_libs  # noqa: F401
            from crosshair.fnutil import FunctionInfo
            from crosshair.options import DEFAULT_OPTIONS, AnalysisOptionSet
            from crosshair.path_cover import CoverageType, path_cover

            fi = FunctionInfo.from_fn(fn)
            opts = DEFAULT_OPTIONS.overlay(
                AnalysisOptionSet(
                    per_condition_timeout=a.timeout,
                    per_path_timeout=a.path_timeout,
                    max_uninteresting_iterations=10 ** 9,
                )
            )
            paths = path_cover(fi, opts, CoverageType.PATH)
            wit = []
            for p in paths:
                try:
                    bound = dict(p.args.arguments)
                    wit.append({k: _jsonable_arg(v) for k, v in bound.items()})
                except Exception:  # noqa: BLE001
                    continue
                if len(wit) >= a.max_witnesses:
                    break
            out["witnesses"] = wit
            out["paths"] = len(paths)
        else:
            raise ValueError(a.mode)
    except BaseException as e:  # noqa: BLE001
        out["error"] = type(e).__name__ + ": " + str(e)[:500]
        out["trace"] = traceback.format_exc()[-3000:]
        out.setdefault("verdict", "ERROR")
    out["wall"] = round(time.time() - t0, 3)
    sys.stdout.write("\n@@RESULT@@" + json.dumps(out) + "\n")
    sys.stdout.flush()


if __name__ == "__main__":
    main()
