"""Shared conventions for harness modules (DESIGN 3.5).

A harness is a plain function with a PEP316 docstring (`pre:` lines = the
property's own preconditions, `post: __return__`).  It returns `done()` when
every oracle comparison agreed and `fail("why")` otherwise.  The same function
object is (a) explored symbolically by CrossHair and (b) re-run concretely on a
solver model, with every stub off, before anything is reported.
"""
import contextlib
import json
import os

CONCRETE = os.environ.get("VERIF_CONCRETE") == "1"

# Set by the runner before exploration.
SHARD = {}          # constants of this shard (discrete shape prefix)
TWIN = False        # reachability twin: done() returns False
LAST_FAIL = []      # reasons recorded by fail() (meaningful in concrete replay)
KNOWN_HITS = []     # known findings met during exploration (in-process only)
COUNTERS = {}       # harness-defined counters (e.g. index branch taken)

_KF_PATH = os.path.join(os.path.dirname(os.path.dirname(os.path.abspath(__file__))), "known_findings.json")
try:
    _KF = json.load(open(_KF_PATH))
except Exception:  # pragma: no cover
    _KF = {"findings": []}
KNOWN_SIGS = {}
for _e in _KF.get("findings", []):
    if _e.get("status") == "open":
        KNOWN_SIGS[(_e["property"], _e["signature"])] = _e


def done():
    count("reached_end")
    return not TWIN


def fail(why):
    if len(LAST_FAIL) < 20:
        LAST_FAIL.append(str(why))
    return False


def known(prop, signature, detail=""):
    """True iff (prop, signature) is a recorded open finding; then note it and go on."""
    e = KNOWN_SIGS.get((prop, signature))
    if e is None:
        return False
    if len(KNOWN_HITS) < 10000:
        KNOWN_HITS.append((prop, signature, str(detail)))
    return True


def count(key, n=1):
    COUNTERS[key] = COUNTERS.get(key, 0) + n


def pick(v, n):
    """Decode a small symbolic choice integer by an explicit comparison chain."""
    for i in range(n - 1):
        if v == i:
            return i
    return n - 1


if CONCRETE:
    def untraced():
        return contextlib.nullcontext()

    def is_tracing():
        return False
else:
    from crosshair.tracers import NoTracing, is_tracing as _is_tracing

    def untraced():
        return NoTracing()

    def is_tracing():
        return _is_tracing()

U64 = 2 ** 64
I63 = 2 ** 63
