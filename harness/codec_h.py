"""Harness functions for C07 (round trip, consumed bytes) and C08 (byte format) — DESIGN 4, C07/C08.

Leaf lemmas are byte-level and two-directional, so that neither needs the other:

  enc:  for every value v of the type: e = encode(v);  len(e) == width and the value the
        *reference* reading of e denotes is v  (base-256 / UTF-8 / IEEE representation is
        unique, so this is `e == ref_encode(v)`), and decode(e + tail) gives v back and
        leaves the stream at len(e)
  dec:  for every well-formed byte string b of the type (+ tail): decode(b + tail) is the
        reference reading of b and consumes exactly len(b)

Container lemmas use a stub element codec X (value = short byte string, wire = length
byte + payload) registered in the *real* Serialization table, so container codecs are
exercised through Serialization._encode_tree/_decode_tree exactly as with real leaves.
"""
import math
import struct
from typing import List, Tuple
from uuid import UUID

import chpatch
from hbase import SHARD, count, done, fail, pick, untraced, U64
import refcodec as R

import gtirb
from gtirb.serialization import Codec, Serialization, Variant

_ser = Serialization()


class StubCodec(Codec):
    """X: value = bytes payload (len <= 2); wire = [len][payload]."""

    @staticmethod
    def decode(raw_bytes, *, serialization=None, subtypes=(), get_by_uuid=None):
        n = raw_bytes.read(1)[0]
        return raw_bytes.read(n)

    @staticmethod
    def encode(out, val, *, serialization=None, subtypes=()):
        out.write(bytes([len(val)]))
        out.write(val)


_ser.codecs["X"] = StubCodec


def _x(e):
    return bytes([len(e)]) + e


def FMT():
    """C08 oracle: byte format / cross-decoding with the reference implementation"""
    return SHARD.get("oracle") == "fmt"


def RT():
    """C07 oracle: round trip and consumed bytes"""
    return SHARD.get("oracle", "rt") == "rt"


def _tname():
    return SHARD["type"]


def _lo():
    return R.int_range(SHARD["type"])[0]


def _hi():
    return R.int_range(SHARD["type"])[1]


def _width():
    return R.INTS[SHARD["type"]][0]


def _encode(v, tn):
    out = chpatch.make_stream()
    _ser.encode(out, v, tn)
    return out.getvalue()


def _decode_at(raw, tn, get_by_uuid=None):
    stream = chpatch.make_stream(raw)
    back = _ser._decode_tree(stream, _ser._parse_type(tn), get_by_uuid)
    return back, stream.tell()


def _u64_is(b, pos, n):
    """bytes b[pos:pos+8] are the little-endian uint64 n"""
    return R.le_value(b[pos:pos + 8], 8, False) == n


# ---------------------------------------------------------------------------
# integers (all widths, Addr)
# ---------------------------------------------------------------------------
def int_enc(v: int, tail: bytes) -> bool:
    """
    pre: _lo() <= v < _hi()
    pre: len(tail) <= 2
    post: __return__
    """
    tn = _tname()
    n, signed = R.INTS[tn]
    e = _encode(v, tn)
    if FMT():
        if len(e) != n:
            return fail("width")
        if R.le_value(e, n, signed) != v:
            return fail("bytes are not the little-endian two's complement of v")
    if RT():
        back, pos = _decode_at(e + tail, tn)
        if back != v:
            return fail("round trip")
        if pos != n:
            return fail("consumed")
        if _ser.decode(e, tn) != v:
            return fail("public decode")
    return done()


def int_dec(b: bytes, tail: bytes) -> bool:
    """
    pre: len(b) == _width()
    pre: len(tail) <= 2
    post: __return__
    """
    tn = _tname()
    n, signed = R.INTS[tn]
    want = R.le_value(b, n, signed)
    back, pos = _decode_at(b + tail, tn)
    if back != want:
        return fail("decode of reference bytes")
    if pos != n:
        return fail("consumed")
    return done()


# ---------------------------------------------------------------------------
# bool
# ---------------------------------------------------------------------------
def bool_enc(v: bool, tail: bytes) -> bool:
    """
    pre: len(tail) <= 2
    post: __return__
    """
    e = _encode(v, "bool")
    if FMT():
        if len(e) != 1 or e[0] != (1 if v else 0):
            return fail("bool byte")
    if RT():
        back, pos = _decode_at(e + tail, "bool")
        if back is not v and back != v:
            return fail("round trip")
        if pos != 1:
            return fail("consumed")
    return done()


def bool_dec(b: int, tail: bytes) -> bool:
    """
    pre: 0 <= b < 256
    pre: len(tail) <= 2
    post: __return__
    """
    back, pos = _decode_at(bytes([b]) + tail, "bool")
    if back != (b != 0):
        return fail("decode of reference byte")
    if pos != 1:
        return fail("consumed")
    return done()


# ---------------------------------------------------------------------------
# string: uint64 count of UTF-8 bytes, then the bytes
# ---------------------------------------------------------------------------
def _no_surrogates(s):
    return all(not (0xD800 <= ord(c) <= 0xDFFF) for c in s)


def str_enc(s: str, tail: bytes) -> bool:
    """
    pre: len(s) <= SHARD["n"]
    pre: _no_surrogates(s)
    pre: len(tail) <= 1
    post: __return__
    """
    e = _encode(s, "string")
    if FMT():
        ref = R.utf8(s)
        if len(e) != 8 + len(ref):
            return fail("total length is not 8 + number of UTF-8 bytes")
        if not _u64_is(e, 0, len(ref)):
            return fail("length prefix is not the UTF-8 byte count")
        for i in range(len(ref)):
            if e[8 + i] != ref[i]:
                return fail("payload is not UTF-8")
    if RT():
        back, pos = _decode_at(e + tail, "string")
        if back != s:
            return fail("round trip")
        if pos != len(e):
            return fail("consumed")
    return done()


def str_dec(s: str, tail: bytes) -> bool:
    """
    pre: len(s) <= SHARD["n"]
    pre: _no_surrogates(s)
    pre: len(tail) <= 1
    post: __return__
    """
    ref = R.utf8(s)
    raw = bytes([len(ref)]) + R.le_bytes_concrete(0, 7) + bytes(ref)
    back, pos = _decode_at(raw + tail, "string")
    if back != s:
        return fail("decode of reference bytes")
    if pos != 8 + len(ref):
        return fail("consumed")
    return done()


# ---------------------------------------------------------------------------
# UUID / Offset (plain values; node resolution is a separate harness)
# ---------------------------------------------------------------------------
def _uuid_bytes_ref(u, e, pos):
    """bytes e[pos:pos+16] are the big-endian 128-bit integer u"""
    tot = 0
    for i in range(16):
        tot = tot + e[pos + i] * (256 ** (15 - i))
    return tot == u


def uuid_enc(u: int, tail: bytes) -> bool:
    """
    pre: 0 <= u < 2**128
    pre: len(tail) <= 2
    post: __return__
    """
    val = UUID(int=u)
    e = _encode(val, "UUID")
    if FMT():
        if len(e) != 16 or not _uuid_bytes_ref(u, e, 0):
            return fail("UUID is not 16 raw bytes")
    if RT():
        back, pos = _decode_at(e + tail, "UUID")
        if not isinstance(back, UUID) or back.int != u:
            return fail("round trip")
        if pos != 16:
            return fail("consumed")
    return done()


def offset_enc(u: int, d: int, tail: bytes) -> bool:
    """
    pre: 0 <= u < 2**128
    pre: 0 <= d < 2**64
    pre: len(tail) <= 2
    post: __return__
    """
    val = gtirb.Offset(UUID(int=u), d)
    e = _encode(val, "Offset")
    if FMT():
        if len(e) != 24 or not _uuid_bytes_ref(u, e, 0) or not _u64_is(e, 16, d):
            return fail("Offset is not UUID then uint64")
    if RT():
        back, pos = _decode_at(e + tail, "Offset")
        if not isinstance(back, gtirb.Offset) or back.element_id.int != u or back.displacement != d:
            return fail("round trip")
        if pos != 24:
            return fail("consumed")
    return done()


def offset_dec(b: bytes, tail: bytes) -> bool:
    """
    pre: len(b) == 24
    pre: len(tail) <= 2
    post: __return__
    """
    back, pos = _decode_at(b + tail, "Offset")
    if not _uuid_bytes_ref(back.element_id.int, b, 0):
        return fail("uuid part")
    if back.displacement != R.le_value(b[16:24], 8, False):
        return fail("displacement part")
    if pos != 24:
        return fail("consumed")
    return done()


# ---------------------------------------------------------------------------
# float / double (E7 model of struct on IEEE-precise symbolic floats)
# ---------------------------------------------------------------------------
def double_enc(x: float, tail: bytes) -> bool:
    """
    pre: not math.isnan(x)
    pre: len(tail) <= 1
    post: __return__
    """
    e = _encode(x, "double")
    if FMT():
        ref = struct.pack(">d", x)
        if len(e) != 8:
            return fail("width")
        for i in range(8):
            if e[i] != ref[7 - i]:
                return fail("not IEEE little endian")
    if RT():
        back, pos = _decode_at(e + tail, "double")
        if not (back == x and math.copysign(1.0, back) == math.copysign(1.0, x)):
            return fail("round trip (bit for bit)")
        if pos != 8:
            return fail("consumed")
    return done()


def float_enc(x: float, tail: bytes) -> bool:
    """
    pre: not math.isnan(x)
    pre: len(tail) <= 1
    raises: OverflowError
    post: __return__
    """
    e = _encode(x, "float")
    ref = struct.pack(">f", x)
    if FMT():
        if len(e) != 4:
            return fail("width")
        for i in range(4):
            if e[i] != ref[3 - i]:
                return fail("not IEEE little endian")
    if RT():
        back, pos = _decode_at(e + tail, "float")
        want = struct.unpack(">f", ref)[0]
        if not (back == want and math.copysign(1.0, back) == math.copysign(1.0, want)):
            return fail("round trip after rounding to float32")
        if pos != 4:
            return fail("consumed")
    return done()


def tuple_mixed_ints(a: int, b: int, c: int, tail: bytes) -> bool:
    """
    pre: 0 <= a < 256 and 0 <= b < 2**64 and -2**15 <= c < 2**15
    pre: len(tail) <= 1
    post: __return__
    """
    # all-scalar tuples whose members have different widths (no padding between fields, whatever the order)
    order = SHARD["order"]
    names = ["uint8_t", "uint64_t", "int16_t"]
    vals = [a, b, c]
    perm = [(0, 1, 2), (1, 0, 2), (2, 0, 1), (0, 2, 1)][order]
    tn = "tuple<%s>" % ",".join(names[i] for i in perm)
    val = tuple(vals[i] for i in perm)
    raw = _encode(val, tn)
    if FMT():
        if len(raw) != 11:
            return fail("length of %s" % tn)
        pos = 0
        for i in perm:
            n, signed = R.INTS[names[i]]
            if R.le_value(raw[pos:pos + n], n, signed) != vals[i]:
                return fail("field %s of %s" % (names[i], tn))
            pos += n
    back, pos = _decode_at(raw + tail, tn)
    if not (isinstance(back, tuple) and len(back) == 3 and all(back[k] == val[k] for k in range(3))):
        return fail("round trip of %s" % tn)
    if pos != len(raw):
        return fail("consumed")
    if SHARD.get("nested"):
        tn2 = "sequence<%s>" % tn
        raw2 = _encode([val, val], tn2)
        back2, pos2 = _decode_at(raw2 + tail, tn2)
        if not (len(back2) == 2 and back2[0] == val and back2[1] == val and pos2 == len(raw2) and len(raw2) == 8 + 22):
            return fail("nested %s" % tn2)
    return done()


SPECIAL_STRINGS = ["\ufeff", "\ufeffa", "a\ufeff", "\ufeff\ufeff", "\ufffe", "\x00", "\x00a", "\u2028", "\r\n", "\ud7ff\ue000", "\U0010ffff", " a ", "\x7f\x80", "%s", "\\"]


def string_spot(i: int, j: int) -> bool:
    """
    pre: 0 <= i < len(SPECIAL_STRINGS) and 0 <= j < len(SPECIAL_STRINGS)
    post: __return__
    """
    # special first / last characters (byte-order mark, NUL, line separators, plane boundaries): concrete, because the
    # codec tables of str.decode are C code; single strings, mapping keys that differ only by such a character, sets
    a, b = SPECIAL_STRINGS[pick(i, len(SPECIAL_STRINGS))], SPECIAL_STRINGS[pick(j, len(SPECIAL_STRINGS))]
    with untraced():
        ok = True
        e = bytes(_encode(a, "string"))
        ok = ok and e == R.ref_encode(("string", ()), a) and _ser.decode(e, "string") == a
        back, pos = _decode_at(e + b"\x01", "string")
        ok = ok and back == a and pos == len(e)
        if a != b:
            d = dict()
            d[a] = 1
            d[b] = 2
            e2 = bytes(_encode(d, "mapping<string,uint8_t>"))
            back2 = _ser.decode(e2, "mapping<string,uint8_t>")
            ok = ok and len(back2) == 2 and back2.get(a) == 1 and back2.get(b) == 2
            e3 = bytes(_encode({a, b}, "set<string>"))
            ok = ok and _ser.decode(e3, "set<string>") == {a, b}
            ok = ok and R.ref_decode(("mapping", (("string", ()), ("uint8_t", ()))), e2)[0] == d
    if not ok:
        return fail("strings %r / %r" % (a, b))
    return done()


def after_failure(which: int, v: int) -> bool:
    """
    pre: 0 <= which < 4
    pre: 0 <= v < 256
    post: __return__
    """
    # an encode that is rejected part-way (element out of range / wrong Python type / unknown codec below a container), then a
    # valid encode on the SAME serializer (AuxData.serializer is process-wide): the second must be exactly its own bytes
    w = pick(which, 4)
    ser = gtirb.AuxData.serializer
    bad = [([1, 2, 300], "sequence<uint8_t>"), ((1, "x"), "tuple<uint8_t,uint8_t>"), ({"k": [1, None]}, "mapping<string,sequence<int8_t>>"),
           ([1, 2], "sequence<nosuchcodec>")][w]
    with untraced():
        out = chpatch.make_stream()
        failed = False
        try:
            ser.encode(out, bad[0], bad[1])
        except Exception:  # noqa: BLE001
            failed = True
    if not failed:
        return fail("an unencodable value was accepted")
    out2 = chpatch.make_stream()
    ser.encode(out2, [v, 7], "sequence<uint8_t>")
    raw = out2.getvalue()
    if len(raw) != 10 or not _u64_is(raw, 0, 2) or raw[8] != v or raw[9] != 7:
        return fail("bytes of a valid value encoded after a rejected one are not its own encoding")
    back = ser.decode(raw, "sequence<uint8_t>")
    if not (len(back) == 2 and back[0] == v and back[1] == 7):
        return fail("round trip after a rejected encode")
    return done()


def zero_spot(which: int) -> bool:
    """
    pre: 0 <= which < 4
    post: __return__
    """
    # signed zeros in both orders within one value and across values (concrete, tracing suspended: the engine bypasses
    # functools caches, so value-keyed memoisation is only visible to a concrete run)
    w = pick(which, 4)
    tn = "double" if w % 2 == 0 else "float"
    with untraced():
        fmt = "<d" if tn == "double" else "<f"
        seqs = ([0.0, -0.0], [-0.0, 0.0]) if w < 2 else ([-0.0, 0.0, -0.0], [0.0])
        ok = True
        for vals in seqs:
            e = bytes(_encode(vals, "sequence<%s>" % tn))
            want = R.le_bytes_concrete(len(vals), 8) + b"".join(struct.pack(fmt, v) for v in vals)
            ok = ok and e == want
            back = _ser.decode(e, "sequence<%s>" % tn)
            ok = ok and [math.copysign(1.0, b) for b in back] == [math.copysign(1.0, v) for v in vals]
            for v in vals:
                ok = ok and bytes(_encode(v, tn)) == struct.pack(fmt, v)
        m = dict()
        m[1] = True
        ok = ok and bytes(_encode(m, "mapping<uint8_t,bool>")) == R.le_bytes_concrete(1, 8) + b"\x01\x01"
        ok = ok and bytes(_encode([1, True, 1.0], "tuple<uint8_t,bool,double>")) == b"\x01\x01" + struct.pack("<d", 1.0)
    if not ok:
        return fail("signed zero / equal-but-distinct values (%s)" % tn)
    return done()


def nan_spot(which: int) -> bool:
    """
    pre: 0 <= which < 2
    post: __return__
    """
    tn = "double" if pick(which, 2) == 0 else "float"
    with untraced():
        e = _encode(float("nan"), tn)
        back, pos = _decode_at(bytes(e) + b"\x07", tn)
        ok = isinstance(back, float) and math.isnan(back) and pos == len(e) and len(e) == (8 if tn == "double" else 4)
        ok = ok and bytes(e) == struct.pack("<d" if tn == "double" else "<f", float("nan"))
    if not ok:
        return fail("NaN")
    return done()


# ---------------------------------------------------------------------------
# containers over the stub codec X
# ---------------------------------------------------------------------------
def seq_lemma(v: List[bytes], tail: bytes) -> bool:
    """
    pre: len(v) <= SHARD["n"]
    pre: all(len(e) <= 2 for e in v)
    pre: len(tail) <= 2
    post: __return__
    """
    raw = _encode(v, "sequence<X>")
    if FMT():
        if not _u64_is(raw, 0, len(v)):
            return fail("count prefix")
        exp = b""
        for e in v:
            exp = exp + _x(e)
        if raw[8:] != exp:
            return fail("elements not in order after the count")
    if RT():
        back, pos = _decode_at(raw + tail, "sequence<X>")
        if not (isinstance(back, list) and back == v):
            return fail("round trip")
        if pos != len(raw):
            return fail("consumed")
    return done()


def set_lemma(v: List[bytes], tail: bytes) -> bool:
    """
    pre: len(v) <= SHARD["n"]
    pre: all(len(e) <= 1 for e in v)
    pre: all(v[i] != v[j] for i in range(len(v)) for j in range(i))
    pre: len(tail) <= 1
    post: __return__
    """
    s = set(v)
    raw = _encode(s, "set<X>")
    if FMT():
        if not _u64_is(raw, 0, len(v)):
            return fail("count prefix")
        # order is free: the reference *decoder* must give back an equal set
        pos = 8
        got = []
        for _ in range(len(v)):
            if pos >= len(raw):
                return fail("truncated")
            n = raw[pos]
            got.append(raw[pos + 1:pos + 1 + n])
            pos = pos + 1 + n
        if pos != len(raw):
            return fail("trailing bytes")
        if len(got) != len(v) or not all(any(g == e for g in got) for e in v):
            return fail("reference decoder does not give the same set")
    if RT():
        back, p2 = _decode_at(raw + tail, "set<X>")
        if not (len(back) == len(v) and all(e in back for e in v)):
            return fail("round trip")
        if p2 != len(raw):
            return fail("consumed")
    return done()


def map_lemma(v: List[Tuple[bytes, bytes]], tail: bytes) -> bool:
    """
    pre: len(v) <= SHARD["n"]
    pre: all(len(k) <= 1 and len(e) <= 1 for k, e in v)
    pre: all(v[i][0] != v[j][0] for i in range(len(v)) for j in range(i))
    pre: len(tail) <= 1
    post: __return__
    """
    d = dict()
    for k, e in v:
        d[k] = e
    raw = _encode(d, "mapping<X,X>")
    if FMT():
        if not _u64_is(raw, 0, len(v)):
            return fail("count prefix")
        exp = b""
        for k, e in v:
            exp = exp + _x(k) + _x(e)
        if raw[8:] != exp:
            return fail("entries are not key, value in iteration order")
    if RT():
        back, pos = _decode_at(raw + tail, "mapping<X,X>")
        if not (len(back) == len(v) and all(k in back and back[k] == e for k, e in v)):
            return fail("round trip")
        if pos != len(raw):
            return fail("consumed")
    return done()


def tuple_lemma(a: bytes, b: bytes, c: bytes, tail: bytes) -> bool:
    """
    pre: len(a) <= 2 and len(b) <= 2 and len(c) <= 2
    pre: len(tail) <= 2
    post: __return__
    """
    ar = SHARD["arity"]
    items = (a, b, c)[:ar]
    tn = "tuple<" + ",".join(["X"] * ar) + ">"
    raw = _encode(items, tn)
    if FMT():
        exp = b""
        for e in items:
            exp = exp + _x(e)
        if raw != exp:
            return fail("tuple is not its fields in order without prefix")
    if RT():
        back, pos = _decode_at(raw + tail, tn)
        if not (isinstance(back, tuple) and len(back) == ar and all(back[i] == items[i] for i in range(ar))):
            return fail("round trip")
        if pos != len(raw):
            return fail("consumed")
    return done()


def tuple_arity(a: bytes, b: bytes) -> bool:
    """
    pre: len(a) <= 1 and len(b) <= 1
    post: __return__
    """
    # a value of the wrong arity must be refused, not silently truncated or padded
    try:
        _encode((a, b), "tuple<X,X,X>")
    except gtirb.serialization.EncodeError:
        return done()
    return fail("tuple of arity 2 accepted for a 3-field type")


def variant_lemma(idx: int, a: bytes, tail: bytes) -> bool:
    """
    pre: 0 <= idx < 3
    pre: len(a) <= 2
    pre: len(tail) <= 2
    post: __return__
    """
    tn = "variant<X,sequence<X>,tuple<X,X>>"
    i = pick(idx, 3)
    if i == 0:
        val = a
        exp = _x(a)
    elif i == 1:
        val = [a, a]
        exp = R.le_bytes_concrete(2, 8) + _x(a) + _x(a)
    else:
        val = (a, b"\x05")
        exp = _x(a) + _x(b"\x05")
    raw = _encode(Variant(i, val), tn)
    if FMT():
        if not _u64_is(raw, 0, i):
            return fail("alternative index prefix")
        if raw[8:] != exp:
            return fail("alternative payload")
    if RT():
        back, pos = _decode_at(raw + tail, tn)
        if not (isinstance(back, Variant) and back.index == i and back.val == val):
            return fail("round trip")
        if pos != len(raw):
            return fail("consumed")
    return done()


# ---------------------------------------------------------------------------
# nested spots with real leaves (exercise the induction argument itself)
# ---------------------------------------------------------------------------
def spot_seq_tuple(s: str, n: int, m: int, tail: bytes) -> bool:
    """
    pre: len(s) <= 2 and _no_surrogates(s)
    pre: 0 <= n < 256 and 0 <= m < 256
    pre: len(tail) <= 1
    post: __return__
    """
    tn = "sequence<tuple<string,uint8_t>>"
    val = [(s, n), ("", m)]
    raw = _encode(val, tn)
    if FMT():
        u = R.utf8(s)
        if len(raw) != 8 + (8 + len(u) + 1) + (8 + 1):
            return fail("length")
        if not _u64_is(raw, 0, 2) or not _u64_is(raw, 8, len(u)):
            return fail("prefixes")
        if raw[16 + len(u)] != n or raw[len(raw) - 1] != m:
            return fail("uint8 fields")
    if RT():
        back, pos = _decode_at(raw + tail, tn)
        if back != val:
            return fail("round trip")
        if pos != len(raw):
            return fail("consumed")
    return done()


def spot_variant(idx: int, v: int, s: str, tail: bytes) -> bool:
    """
    pre: 0 <= idx < 3
    pre: -2**63 <= v < 2**63
    pre: len(s) <= 1 and _no_surrogates(s)
    pre: len(tail) <= 1
    post: __return__
    """
    tn = "variant<int64_t,string,sequence<uint8_t>>"
    i = pick(idx, 3)
    val = v if i == 0 else (s if i == 1 else [7, 9])
    raw = _encode(Variant(i, val), tn)
    if FMT():
        if not _u64_is(raw, 0, i):
            return fail("index")
        if i == 0 and (len(raw) != 16 or R.le_value(raw[8:16], 8, True) != v):
            return fail("int64 alternative")
    if RT():
        back, pos = _decode_at(raw + tail, tn)
        if not (back.index == i and back.val == val):
            return fail("round trip")
        if pos != len(raw):
            return fail("consumed")
    return done()


def spot_map_set(k: str, u: int, w: int, tail: bytes) -> bool:
    """
    pre: len(k) <= 1 and _no_surrogates(k)
    pre: 0 <= u < 2**128 and 0 <= w < 2**128 and u != w
    pre: len(tail) <= 1
    post: __return__
    """
    tn = "mapping<string,set<UUID>>"
    d = dict()
    d[k] = set([UUID(int=u), UUID(int=w)])
    raw = _encode(d, tn)
    if FMT():
        uk = R.utf8(k)
        if len(raw) != 8 + 8 + len(uk) + 8 + 32:
            return fail("length")
        if not _u64_is(raw, 0, 1) or not _u64_is(raw, 8, len(uk)) or not _u64_is(raw, 16 + len(uk), 2):
            return fail("prefixes")
    if RT():
        back, pos = _decode_at(raw + tail, tn)
        if not (len(back) == 1 and k in back):
            return fail("round trip keys")
        got = back[k]
        if not (len(got) == 2 and UUID(int=u) in got and UUID(int=w) in got):
            return fail("round trip values")
        if pos != len(raw):
            return fail("consumed")
    return done()


def spot_tuple_mixed(u: int, d: int, b: bool, x: float, tail: bytes) -> bool:
    """
    pre: 0 <= u < 2**128 and 0 <= d < 2**64
    pre: not math.isnan(x)
    pre: len(tail) <= 1
    post: __return__
    """
    tn = "tuple<Offset,bool,double>"
    val = (gtirb.Offset(UUID(int=u), d), b, x)
    raw = _encode(val, tn)
    if FMT():
        if len(raw) != 24 + 1 + 8:
            return fail("length")
        if not _uuid_bytes_ref(u, raw, 0) or not _u64_is(raw, 16, d) or raw[24] != (1 if b else 0):
            return fail("layout")
    if RT():
        back, pos = _decode_at(raw + tail, tn)
        if not (back[0].element_id.int == u and back[0].displacement == d and back[1] == b and back[2] == x):
            return fail("round trip")
        if pos != len(raw):
            return fail("consumed")
    return done()


# ---------------------------------------------------------------------------
# node resolution: UUID/Offset entries naming nodes of the given IR come back as those objects
# ---------------------------------------------------------------------------
def _pool():
    """Two IRs; IR A holds one node of every kind; one detached node; fresh UUIDs."""
    ira = gtirb.IR(uuid=UUID(int=1))
    irb = gtirb.IR(uuid=UUID(int=2))
    m = gtirb.Module(name="m", uuid=UUID(int=10), ir=ira)
    s = gtirb.Section(name="s", uuid=UUID(int=11), module=m)
    bi = gtirb.ByteInterval(size=4, uuid=UUID(int=12), section=s)
    cb = gtirb.CodeBlock(size=1, uuid=UUID(int=13), byte_interval=bi)
    db = gtirb.DataBlock(size=1, uuid=UUID(int=14), byte_interval=bi)
    px = gtirb.ProxyBlock(uuid=UUID(int=15), module=m)
    sy = gtirb.Symbol("y", uuid=UUID(int=16), module=m)
    mb = gtirb.Module(name="mb", uuid=UUID(int=20), ir=irb)
    det = gtirb.DataBlock(size=1, uuid=UUID(int=30))
    # nodes that are "empty" in some sense must resolve like any other: empty section, zero-sized interval and block, module without children
    es = gtirb.Section(name="", uuid=UUID(int=17), module=m)
    zi = gtirb.ByteInterval(size=0, uuid=UUID(int=18), section=s)
    zb = gtirb.DataBlock(size=0, uuid=UUID(int=19), byte_interval=bi)
    attached = [ira, m, s, bi, cb, db, px, sy, es, zi, zb]
    return ira, irb, attached, [mb, irb], det


def node_resolution(which: int, kind: int, disp: int) -> bool:
    """
    pre: 0 <= which < 15
    pre: 0 <= kind < 6
    pre: 0 <= disp < 2**64
    post: __return__
    """
    w = pick(which, 15)
    k = pick(kind, 6)
    NA = 11
    with untraced():
        ira, irb, attached, other, det = _pool()
        cands = attached + other + [det, None]     # 11 attached, 2 of the other IR, detached, unknown
        target = cands[w]
        u = target.uuid if target is not None else UUID(int=99)
        want = target if w < NA else u             # object itself iff attached to IR A
    if k == 0:
        tn, val = "UUID", (target if target is not None else u)
    elif k == 1:
        tn, val = "Offset", gtirb.Offset(target if target is not None else u, disp)
    elif k == 2:
        tn, val = "sequence<UUID>", [u, u]
    elif k == 4:
        tn, val = "variant<string,UUID>", Variant(1, u)
    elif k == 5:
        tn, val = "mapping<string,variant<int64_t,tuple<UUID,sequence<Offset>>>>", {"k": Variant(1, (u, [gtirb.Offset(u, disp)]))}
    else:
        tn, val = "mapping<UUID,Offset>", {u: gtirb.Offset(u, disp)}
    raw = _encode(val, tn)
    back = _ser.decode(raw, tn, ira.get_by_uuid)
    if k == 0:
        got = [back]
    elif k == 1:
        if back.displacement != disp:
            return fail("displacement")
        got = [back.element_id]
    elif k == 2:
        if len(back) != 2:
            return fail("len")
        got = [back[0], back[1]]
    elif k == 4:
        if back.index != 1:
            return fail("variant index")
        got = [back.val]
    elif k == 5:
        inner = back["k"]
        if inner.index != 1 or inner.val[1][0].displacement != disp:
            return fail("nested variant")
        got = [inner.val[0], inner.val[1][0].element_id]
    else:
        if len(back) != 1:
            return fail("len")
        key = list(back.keys())[0]
        if back[key].displacement != disp:
            return fail("displacement")
        got = [key, back[key].element_id]
    for g in got:
        if w < NA:
            if g is not want:
                return fail("attached node did not come back as the object itself")
        else:
            if not (isinstance(g, UUID) and g == u):
                return fail("non-attached UUID did not come back as a plain UUID")
    # decoded without an IR: always plain UUIDs
    back2 = _ser.decode(raw, tn)
    if k == 0 and not (isinstance(back2, UUID) and back2 == u):
        return fail("no-IR decode")
    return done()


def seq_of_int(a: int, b: int, tail: bytes) -> bool:
    """
    pre: _lo() <= a < _hi() and _lo() <= b < _hi()
    pre: len(tail) <= 1
    post: __return__
    """
    # containers with REAL integer leaves of every width (a container codec must not treat an element type specially)
    tn = _tname()
    n, signed = R.INTS[tn]
    shape = SHARD["shape"]
    if shape == "sequence":
        ty, val = "sequence<%s>" % tn, [a, b]
    elif shape == "set":
        ty, val = "set<%s>" % tn, set([a])
    elif shape == "mapping":
        ty, val = "mapping<%s,%s>" % (tn, tn), dict()
        val[a] = b
    else:
        ty, val = "tuple<%s,%s>" % (tn, tn), (a, b)
    raw = _encode(val, ty)
    items = [a, b] if shape != "set" else [a]
    pre = 0 if shape == "tuple" else 8
    if FMT():
        if len(raw) != pre + n * len(items):
            return fail("length")
        if pre and not _u64_is(raw, 0, 1 if shape in ("set", "mapping") else 2):
            return fail("count prefix")
        for i, x in enumerate(items):
            if R.le_value(raw[pre + n * i: pre + n * (i + 1)], n, signed) != x:
                return fail("element %d is not the little-endian two's complement of the value" % i)
    if RT() or FMT():
        # (FMT: raw was just shown to be the reference encoding, so this is cross-decoding of reference bytes)
        back, pos = _decode_at(raw + tail, ty)
        if shape == "sequence":
            ok = isinstance(back, list) and len(back) == 2 and back[0] == a and back[1] == b
        elif shape == "set":
            ok = len(back) == 1 and a in back
        elif shape == "mapping":
            ok = len(back) == 1 and a in back and back[a] == b
        else:
            ok = isinstance(back, tuple) and len(back) == 2 and back[0] == a and back[1] == b
        if not ok:
            return fail("round trip of %s" % ty)
        if pos != len(raw):
            return fail("consumed")
    return done()


def seq_of_double(x: float, y: float, tail: bytes) -> bool:
    """
    pre: not math.isnan(x) and not math.isnan(y)
    pre: len(tail) <= 1
    raises: OverflowError
    post: __return__
    """
    # two floats in one value: e.g. 0.0 and -0.0, which compare equal but are different bit patterns
    ty = SHARD["ty"]
    raw = _encode([x, y], "sequence<%s>" % ty)
    w = 8 if ty == "double" else 4
    rx = struct.pack(">d" if ty == "double" else ">f", x)
    ry = struct.pack(">d" if ty == "double" else ">f", y)
    if FMT():
        if len(raw) != 8 + 2 * w or not _u64_is(raw, 0, 2):
            return fail("length / count")
        for i in range(w):
            if raw[8 + i] != rx[w - 1 - i] or raw[8 + w + i] != ry[w - 1 - i]:
                return fail("elements are not IEEE little endian, bit for bit")
    if RT():
        back, pos = _decode_at(raw + tail, "sequence<%s>" % ty)
        wx = x if ty == "double" else struct.unpack(">f", rx)[0]
        wy = y if ty == "double" else struct.unpack(">f", ry)[0]
        if not (len(back) == 2 and back[0] == wx and back[1] == wy
                and math.copysign(1.0, back[0]) == math.copysign(1.0, wx) and math.copysign(1.0, back[1]) == math.copysign(1.0, wy)):
            return fail("round trip bit for bit")
        if pos != len(raw):
            return fail("consumed")
    return done()


def spot_seq_variant(idx: int, v: int, s: str, tail: bytes) -> bool:
    """
    pre: 0 <= idx < 4
    pre: 0 <= v < 256
    pre: len(s) <= 1 and _no_surrogates(s)
    pre: len(tail) <= 1
    post: __return__
    """
    # variants with alternatives of different sizes inside containers, short trailing data
    tn = "sequence<variant<uint8_t,string,Offset,uint8_t>>"
    i = pick(idx, 4)
    vals = [[], [Variant(3, v)], [Variant(0, v), Variant(1, s)], [Variant(0, v), Variant(3, 7), Variant(0, 9)]][i]
    raw = _encode(vals, tn)
    if FMT():
        if not _u64_is(raw, 0, len(vals)):
            return fail("count")
        want = 8 + sum(8 + (1 if x.index in (0, 3) else 8 + len(R.utf8(x.val))) for x in vals)
        if len(raw) != want:
            return fail("length")
        pos = 8
        for x in vals:
            if not _u64_is(raw, pos, x.index):
                return fail("alternative index written is not the value's index")
            pos += 8 + (1 if x.index in (0, 3) else 8 + len(R.utf8(x.val)))
    if RT():
        back, pos = _decode_at(raw + tail, tn)
        if not (len(back) == len(vals) and all(back[k].index == vals[k].index and back[k].val == vals[k].val for k in range(len(vals)))):
            return fail("round trip")
        if pos != len(raw):
            return fail("consumed")
    return done()


def node_resolution_hist(which: int, edit: int) -> bool:
    """
    pre: 0 <= which < 4
    pre: 0 <= edit < 4
    post: __return__
    """
    # the same bytes decoded twice against one IR with an edit of that IR in between: each decode reflects the CURRENT attachment
    w = pick(which, 4)
    e = pick(edit, 4)
    with untraced():
        ira, irb, attached, other, det = _pool()
        ir, m, s, bi, cb, db, px, sy = attached[:8]
        node = [cb, sy, px, det][w]
        tn = ("UUID", "Offset", "sequence<UUID>", "mapping<UUID,Offset>")[(w + e) % 4]
        u = node.uuid
        val = {"UUID": u, "Offset": gtirb.Offset(u, 3), "sequence<UUID>": [u], "mapping<UUID,Offset>": {u: gtirb.Offset(u, 0)}}[tn]
        raw = bytes(_encode(val, tn))

        def first_uuid_like(v):
            if tn == "UUID":
                return v
            if tn == "Offset":
                return v.element_id
            if tn == "sequence<UUID>":
                return v[0]
            return list(v.keys())[0]

        def attached_now():
            return ira.get_by_uuid(u) is node and node.ir is ira

        why = None
        for round_ in range(2):
            got = first_uuid_like(_ser.decode(raw, tn, ira.get_by_uuid))
            if attached_now():
                if got is not node:
                    why = "round %d: attached node did not come back as the object itself" % round_
            elif not (isinstance(got, UUID) and got == u):
                why = "round %d: a node that is not attached came back as an object" % round_
            if why:
                break
            # edit between the two decodes
            if e == 0:
                if w == 0:
                    cb.byte_interval = None
                elif w == 1:
                    sy.module = None
                elif w == 2:
                    px.module = None
                else:
                    det.byte_interval = bi
            elif e == 1:
                m.ir = None
            elif e == 2:
                m.ir = irb
            else:
                pass
    if why:
        return fail("%s of node %d, edit %d: %s" % (tn, w, e, why))
    return done()


def codec_table() -> bool:
    """
    post: __return__
    """
    # every leaf / container name this suite has a lemma for must be what the live table has
    have = set(Serialization().codecs.keys())
    covered = set(R.INTS) | {"bool", "float", "double", "string", "UUID", "Offset", "sequence", "set", "mapping", "tuple", "variant"}
    if have != covered:
        return fail("codec table differs from the lemma set: %r" % sorted(have ^ covered))
    return done()


ASSUMPTIONS = [
    "io.BytesIO replaced by ModelBytesIO (append-only write, sequential read) under the solver; real BytesIO in every replay",
    "struct.pack/unpack for <f >f <d >d modelled with z3 FP theory (fpToIEEEBV); NaN is a single value (payload bits outside the claim)",
    "int.to_bytes modelled by fresh byte variables with sum(b_i*256^i) == v (E2)",
    "container lemmas proved over a stub element codec X registered in the real Serialization table; generalisation to arbitrary element types is by induction over the type tree (container codecs reach elements only through Serialization._encode_tree/_decode_tree)",
    "Java codec (java/com/grammatech/gtirb/auxdatacodec) is not executed: it cannot be compiled offline and is outside symbolic reach; the reference codec was written from AuxData.md/AuxData.hpp and the Java sources",
]
OUTSIDE = ("strings longer than the stated code-point bound, containers longer than the stated element bound, NaN payload bits, "
           "malformed foreign bytes, the Java codec")
