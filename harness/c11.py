"""C11 - the CFG is a set of edges with consistent adjacency views (DESIGN 4, C11).

Real networkx (pure Python).  Pre-state: up to three of the 12 possible edges over two nodes and
three labels (None, the all-false label, an all-true label), inserted in a chosen order (networkx
multi-edge keys depend on history); then K operations.  Oracle: a Python set of
(source index, target index, label index) triples; after every step length, membership of all 12
edges, iteration as a multiset, out_edges/in_edges of both nodes and the block views are compared.
"""
import itertools
from uuid import UUID

from hbase import SHARD, count, done, fail, pick, untraced

import gtirb

LABELS = [None, gtirb.Edge.Label(gtirb.Edge.Type.Branch, False, False), gtirb.Edge.Label(gtirb.Edge.Type.Call, True, True)]
KEYS = [(s, t, l) for s in range(2) for t in range(2) for l in range(3)]       # 12 edges
SUBSETS = [c for n in range(4) for c in itertools.combinations(range(12), n)]   # 299 pre-states
SMALL = [()] + [(i,) for i in range(12)] + [(i, j) for i in range(12) for j in range(i + 1, 12) if KEYS[i][:2] == KEYS[j][:2]]
PAIRS = [(0, 1), (0, 5), (3, 3), (2, 9), (4, 11), (1, 2)]


class W:
    pass


def build(pre, order, attach_b):
    w = W()
    w.ir = gtirb.IR(uuid=UUID(int=1))
    m = gtirb.Module(name="m", uuid=UUID(int=2), ir=w.ir)
    s = gtirb.Section(name="s", uuid=UUID(int=3), module=m)
    bi = gtirb.ByteInterval(size=4, uuid=UUID(int=4), section=s)
    a = gtirb.CodeBlock(size=1, uuid=UUID(int=5), byte_interval=bi)
    b = gtirb.ProxyBlock(uuid=UUID(int=6), module=(m if attach_b else None))
    w.nodes = [a, b]
    w.attached = [True, bool(attach_b)]
    w.cfg = w.ir.cfg
    w.model = set()
    seq = list(pre)
    if order:
        seq.reverse()
    for k in seq:
        w.cfg.add(edge(w, k))
        w.model.add(KEYS[k])
    return w


def edge(w, k):
    s, t, l = KEYS[k]
    return gtirb.Edge(w.nodes[s], w.nodes[t], LABELS[l])


def _mk_ops():
    ops = []
    for k in range(12):
        ops.append(("add(e%d)" % k, "add", (k,)))
        ops.append(("discard(e%d)" % k, "discard", (k,)))
        ops.append(("remove(e%d)" % k, "remove", (k,)))
    ops.append(("pop()", "pop", ()))
    ops.append(("clear()", "clear", ()))
    n_basic = len(ops)
    for (i, j) in PAIRS:
        for kind in ("update", "|=", "-=", "&=", "^="):
            ops.append(("%s{e%d,e%d}" % (kind, i, j), kind, (i, j)))
    for kind in ("update", "|=", "-=", "&=", "^="):
        ops.append(("%s{}" % kind, kind, ()))
    for (i, j) in PAIRS[:4]:
        for kind in ("ir.cfg|=", "ir.cfg-=", "ir.cfg&=", "ir.cfg^="):
            ops.append(("%s{e%d,e%d}" % (kind, i, j), kind, (i, j)))
    for (i, j) in PAIRS[:4]:
        for kind in ("^=list", "|=list", "-=iter", "&=list", "^=view"):
            ops.append(("%s[e%d,e%d,e%d]" % (kind, i, j, i), kind, (i, j)))
    for (i, j) in PAIRS[:4]:
        for kind in ("updateCFG", "|=CFG", "-=CFG", "&=CFG"):
            ops.append(("%s{e%d,e%d}" % (kind, i, j), kind, (i, j)))
    return ops, n_basic


OPS, N_BASIC = _mk_ops()


def apply(w, opi):
    name, kind, ks = OPS[opi]
    cfg, model = w.cfg, w.model
    es = [edge(w, k) for k in ks]
    keys = set(KEYS[k] for k in ks)
    if kind == "add":
        cfg.add(es[0])
        model.add(KEYS[ks[0]])
    elif kind == "discard":
        cfg.discard(es[0])
        model.discard(KEYS[ks[0]])
    elif kind == "remove":
        present = KEYS[ks[0]] in model
        try:
            cfg.remove(es[0])
            if not present:
                return "remove of an absent edge did not raise KeyError"
        except KeyError:
            if present:
                return "remove of a present edge raised KeyError"
        model.discard(KEYS[ks[0]])
    elif kind == "pop":
        try:
            e = cfg.pop()
        except KeyError:
            if model:
                return "pop on a non-empty CFG raised KeyError"
            return None
        if not model:
            return "pop on an empty CFG returned an edge"
        key = key_of(w, e)
        if key not in model:
            return "pop returned an edge that is not a member"
        model.discard(key)
    elif kind == "clear":
        cfg.clear()
        model.clear()
    elif kind in ("ir.cfg|=", "ir.cfg-=", "ir.cfg&=", "ir.cfg^="):
        # the operator spelled through the attribute: ir.cfg op= x  (== ir.cfg = ir.cfg.__iop__(x))
        if kind == "ir.cfg|=":
            w.ir.cfg |= set(es)
            model |= keys
        elif kind == "ir.cfg-=":
            w.ir.cfg -= set(es)
            model -= keys
        elif kind == "ir.cfg&=":
            w.ir.cfg &= set(es)
            model &= keys
        else:
            w.ir.cfg ^= set(es)
            model ^= keys
        w.cfg = w.ir.cfg
        cfg = w.cfg
    elif kind in ("^=list", "|=list", "-=iter", "&=list", "^=view"):
        # the right-hand side is not a Set: a list naming an edge twice, an iterator, a live view of the CFG itself
        rhs = [es[0], es[1], es[0]]
        if kind == "^=list":
            cfg ^= rhs
            model ^= keys
        elif kind == "|=list":
            cfg |= rhs
            model |= keys
        elif kind == "-=iter":
            cfg -= iter(rhs)
            model -= keys
        elif kind == "&=list":
            cfg &= rhs
            model &= keys
        else:
            outs = set(k for k in model if k[0] == KEYS[ks[0]][0])
            cfg ^= cfg.out_edges(w.nodes[KEYS[ks[0]][0]])
            model ^= outs
    elif kind in ("updateCFG", "|=CFG", "-=CFG", "&=CFG"):
        other = gtirb.CFG(es)                      # the argument is itself a CFG
        if kind == "updateCFG":
            cfg.update(other)
            model |= keys
        elif kind == "|=CFG":
            cfg |= other
            model |= keys
        elif kind == "-=CFG":
            cfg -= other
            model -= keys
        else:
            cfg &= other
            model &= keys
        if sorted((key_of(w, e) for e in other), key=str) != sorted(keys, key=str):
            return "the argument CFG was modified"
    elif kind == "update":
        cfg.update(es)
        model |= keys
    elif kind == "|=":
        cfg |= set(es)
        model |= keys
    elif kind == "-=":
        cfg -= set(es)
        model -= keys
    elif kind == "&=":
        cfg &= set(es)
        model &= keys
    elif kind == "^=":
        cfg ^= set(es)
        model ^= keys
    if w.ir.cfg is not cfg:
        return "in-place operator replaced the CFG object"
    return None


def key_of(w, e):
    if not isinstance(e, gtirb.Edge):
        return None
    s = 0 if e.source is w.nodes[0] else (1 if e.source is w.nodes[1] else None)
    t = 0 if e.target is w.nodes[0] else (1 if e.target is w.nodes[1] else None)
    l = None
    for i, lab in enumerate(LABELS):
        if (e.label is None and lab is None) or (e.label is not None and lab is not None and e.label == lab):
            l = i
    return (s, t, l)


def check(w):
    cfg, model = w.cfg, w.model
    if len(cfg) != len(model):
        return "len is %d, the set has %d edges" % (len(cfg), len(model))
    for k in range(12):
        if (edge(w, k) in cfg) != (KEYS[k] in model):
            return "membership of e%d" % k
    got = [key_of(w, e) for e in cfg]
    if sorted(got, key=str) != sorted(model, key=str):
        return "iteration yields %r" % (got,)
    for i, n in enumerate(w.nodes):
        outs = sorted((key_of(w, e) for e in cfg.out_edges(n)), key=str)
        ins = sorted((key_of(w, e) for e in cfg.in_edges(n)), key=str)
        eo = sorted((k for k in model if k[0] == i), key=str)
        ei = sorted((k for k in model if k[1] == i), key=str)
        if outs != eo:
            return "out_edges(node %d)" % i
        if ins != ei:
            return "in_edges(node %d)" % i
        bo = sorted((key_of(w, e) for e in n.outgoing_edges), key=str)
        bi_ = sorted((key_of(w, e) for e in n.incoming_edges), key=str)
        if w.attached[i]:
            if bo != eo or bi_ != ei:
                return "block view of node %d" % i
        elif bo or bi_:
            return "detached node %d has edge views" % i
    if gtirb.Edge(w.nodes[0], w.nodes[0]) in cfg and (0, 0, 0) not in model:
        return "a missing label equals some label"
    return None


def run(pre, order, attach_b, opis):
    w = build(pre, order, attach_b)
    why = check(w)
    if why:
        return "pre-state: " + why, ""
    names = []
    for o in opis:
        names.append(OPS[o][0])
        try:
            why = apply(w, o)
        except Exception as e:  # noqa: BLE001
            why = "undeclared %s: %s" % (type(e).__name__, str(e)[:60])
        why = why or check(w)
        if why:
            return why, ";".join(names)
    return None, ";".join(names)


def hist(p: int, order: int, att: int, op: int, op2: int) -> bool:
    """
    pre: 0 <= p < SHARD["npre"]
    pre: 0 <= order < 2 and 0 <= att < 2
    pre: 0 <= op < SHARD["nops"] and 0 <= op2 < SHARD["nops2"]
    post: __return__
    """
    pi = SHARD["pre_lo"] + pick(p, SHARD["npre"])
    pre = (SMALL if SHARD["small"] else SUBSETS)[pi]
    if SHARD.get("fix_oa"):
        od, ab = 0, 1
    else:
        od = pick(order, 2)
        ab = pick(att, 2)
    opis = [SHARD["op_lo"] + pick(op, SHARD["nops"])]
    if SHARD["nops2"] > 1:
        opis.append(pick(op2, SHARD["nops2"]))
    with untraced():
        why, names = run(pre, od, ab, opis)
    if why is not None:
        return fail("pre=%s order=%d b_attached=%d ops=%s: %s" % ([KEYS[k] for k in pre], od, ab, names, why))
    count("scenarios")
    return done()


ASSUMPTIONS = [
    "networkx is used as is (pure Python, warmed up before tracing); scenarios are concrete once the choice integers are decoded (bounded-exhaustive)",
    "histories matter (multi-edge keys), so no inductive shortcut is claimed beyond the enumerated pre-states",
]
OUTSIDE = "more than two nodes or three labels; pre-states of more than three edges; histories longer than K after the pre-state"
BOUNDS = {
    "quick": "2 nodes (attached code block; proxy attached or not) x 3 labels = 12 edges; every pre-state of <= 2 edges in 2 insertion orders x %d operations (K = 1); "
             "K = 2 over {add, discard, remove, pop, clear} from the %d pre-states with <= 1 edge or two parallel edges (proxy attached, one insertion order)" % (len(OPS), len(SMALL)),
    "thorough": "K = 1 from every pre-state of <= 3 edges (598 with orders); K = 2 over the full operation alphabet from the %d small pre-states and K = 2 over the basic alphabet from every pre-state of <= 2 edges" % len(SMALL),
}


def shards(tier):
    out = []
    n = 79 if tier == "quick" else len(SUBSETS)      # quick: pre-states of <= 2 edges
    step = 5 if tier == "quick" else 20
    for lo in range(0, n, step):
        out.append({"fn": "hist", "consts": {"small": 0, "pre_lo": lo, "npre": min(step, n - lo), "op_lo": 0, "nops": len(OPS), "nops2": 1},
                    "timeout": 1200, "twin": "first", "cover": "first"})
    if tier == "quick":
        for lo in range(0, len(SMALL), 2):
            out.append({"fn": "hist", "consts": {"small": 1, "fix_oa": 1, "pre_lo": lo, "npre": min(2, len(SMALL) - lo), "op_lo": 0, "nops": N_BASIC, "nops2": N_BASIC},
                        "timeout": 1200, "twin": False, "cover": False})
    else:
        for lo in range(0, len(SMALL)):
            for olo in range(0, len(OPS), 12):
                out.append({"fn": "hist", "consts": {"small": 1, "pre_lo": lo, "npre": 1, "op_lo": olo, "nops": min(12, len(OPS) - olo), "nops2": len(OPS)},
                            "timeout": 1800, "twin": False, "cover": False})
        for lo in range(0, 79, 1):
            out.append({"fn": "hist", "consts": {"small": 0, "pre_lo": lo, "npre": 1, "op_lo": 0, "nops": N_BASIC, "nops2": N_BASIC},
                        "timeout": 1800, "twin": False, "cover": False})
    return out
