"""C05 - block lookups by address or offset equal a fresh scan at every scope (DESIGN 4, C05)."""
import itertools

from index_h import *  # noqa: F401,F403

BOUNDS = {
    "quick": "interval scope: 2 symbolic blocks (offset,size in [0,2^64-1)), Optional interval address, range/stepped/point queries (all symbolic), offset and address views; "
             "histories: every sequence of <= 2 edits over {offset=, size=, discard, add, move to other interval, address=, address=None} with symbolic values, "
             "index materialised before every edit or never, 3 or 4 ballast members (replay and rebuild branches); "
             "section/module/IR scope: 1 block + address-less interval, Optional address, stepped ranges, must/may oracle; two intervals in 3 layouts",
    "thorough": "as quick with histories of <= 3 edits and ballast 0/3/5",
}
OUTSIDE = ("more than 2 symbolic blocks per interval, more than 2 intervals; histories longer than stated; values equal to 2^64-1 (reserved for ballast); "
           "the real intervaltree (contract ModelTree; real tree only in witness replay); load as a history step (covered by C01/C17 harnesses)")
ASSUMPTIONS = [
    "intervaltree.IntervalTree replaced by ModelTree (linear scan, comparisons only): add/discard/overlap/begin/end/span contract; the real tree is used in every replay",
    "mid-history lookups are empty-range offset queries: by reading, a lookup's only side effect is LazyIntervalTree.get()",
    "'on' uses the hull [start, stop) of a stepped range (pinned test test_blocks_on_with_range)",
]
EDITS = "ozramAN"
# quick: every single edit, and the pairs that matter for index maintenance (edit-edit bursts, remove/re-add, move/re-add,
# edits while detached, address change combined with an edit)
QUICK_PAIRS = ["oz", "zo", "oo", "ra", "ma", "ro", "mo", "Ao", "oA", "No", "NA", "rm"]


def history_shards(tier, fn, all_scheds=False):
    out = []
    K = 2 if tier == "quick" else 3
    nbs = (3, 4) if tier == "quick" else (0, 3, 5)
    for k in range(1, K + 1):
        seqs = ["".join(o) for o in itertools.product(EDITS, repeat=k)]
        if tier == "quick" and k == 2:
            seqs = QUICK_PAIRS
        if k == 3:
            seqs = [a + b for a in QUICK_PAIRS[:8] for b in "oz"] + ["rza", "mza", "Aoz", "NAo"]
        full = (1 << (k + 1)) - 1
        if all_scheds:
            scheds = list(range(1, 1 << k))          # C12: every placement of lookups between the steps (none = the reference run)
            if tier == "quick" and k == 2:
                scheds = [1, 2, 3]
            if k == 3:
                scheds = [1, 3, 5]
        else:
            scheds = [0, full] + ([1] if k >= 2 else [])      # 1 = a lookup before the first edit only: later edits accumulate
        for ops in seqs:
            for sched in scheds:
                for nb in nbs:
                    if k >= 2 and nb != nbs[0] and sched in (0, 2, 4, 5):
                        continue
                    if k >= 2 and not all_scheds and sched == 1 and nb != nbs[-1]:
                        continue
                    out.append({"fn": fn, "consts": {"ops": ops, "sched": sched, "nb": nb, "b2": 1 if k == 3 else 0,
                                                     "addr": "sym" if k == 1 else "fixed"},
                                "timeout": 900, "twin": "first", "cover": "first"})
    # an interval that is empty (no ballast) while it is looked up, then refilled; triple toggles of one block without lookups
    for ops, nb, scheds in (("ra", 0, (7, 2)), ("ma", 0, (7, 2)), ("rar", 4, (1,)), ("ara", 4, (1,)), ("ozo", 4, (1,)),
                            ("ramo", 4, (1,)), ("ramz", 4, (1, 2)), ("maro", 4, (1,)), ("ou", 0, (1,)), ("zu", 0, (1,)), ("ozu", 0, (1,))):
        for sched in scheds:
            if all_scheds and sched >= (1 << len(ops)):
                sched = sched & ((1 << len(ops)) - 1)
            out.append({"fn": fn, "consts": {"ops": ops, "sched": sched, "nb": nb, "b2": 0, "addr": "fixed"}, "timeout": 900, "twin": False, "cover": False})
    # the same single edits inside an interval whose declared size is 0 (blocks lie outside the extent; interval scope is exact)
    for ops in ("o", "z", "oz"):
        for nb in (3, 4):
            out.append({"fn": fn, "consts": {"ops": ops, "sched": 1, "nb": nb, "b2": 0, "addr": "fixed", "isize": 0}, "timeout": 900, "twin": False, "cover": False})
    # bursts followed by bulk growth of the collection (pending events above the size at queueing time, below it at lookup time)
    for ops in (("ozu", "oou") if tier == "quick" else ("ozu", "oou", "uoz", "zou")):
        if tier == "quick" and not all_scheds:
            break                      # quick: only C12 runs the growth shards
        for sched in ((1,) if all_scheds else (1, 0)):
            for nb in ((3,) if tier == "quick" else (3, 0)):
                out.append({"fn": fn, "consts": {"ops": ops, "sched": sched, "nb": nb, "b2": 0, "addr": "fixed"}, "timeout": 900, "twin": False, "cover": False})
    return out


def shards(tier):
    out = []
    for view in ("offset", "addr"):
        for q in ("range", "step", "point"):
            out.append({"fn": "blk_two", "consts": {"view": view, "q": q}, "timeout": 900})
    out += history_shards(tier, "blk_hist")
    for scope in ("section", "module", "ir"):
        for q in ("step", "point"):
            for kind in ("code", "data"):
                if tier == "quick" and kind == "data" and q == "point":
                    continue
                out.append({"fn": "blk_scope", "consts": {"scope": scope, "q": q, "kind": kind}, "timeout": 900})
        for lay in (0, 1, 2):
            out.append({"fn": "blk_scope2", "consts": {"scope": scope, "layout": lay}, "timeout": 900})
    return out
