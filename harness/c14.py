"""C14 - AuxData tables are never silently lost, staled or rewritten (DESIGN 4, C14).

Unit: AuxData._from_protobuf, .data, .data=, .type_name=, ._to_protobuf on pure-Python protobuf
messages, composed over save/load generations.  Oracle: a three-field model (raw bytes still held?,
type name the bytes were loaded with, current type name and value) prescribing the statement's three
sentences; for supported types the written bytes are read back with the reference reader
(refcodec), so "written as the encoding of its current value" is decided for all values.
"""
from typing import List
from uuid import UUID

from hbase import SHARD, count, done, fail, pick, untraced
import refcodec as R

import gtirb
from gtirb.proto import AuxData_pb2

_IR = gtirb.IR(uuid=UUID(int=9))

ACTIONS = ("leave", "read", "mutate", "mutate_ref", "assign", "type_same", "type_other", "save", "reload")
WIDTH = {"sequence<int16_t>": 2, "sequence<int32_t>": 4}


def _i16(x):
    return -2 ** 15 <= x < 2 ** 15


def _seq_bytes(vals, width):
    """reference bytes of a sequence of (possibly symbolic) ints: u64 count + little-endian two's complement elements"""
    out = R.le_bytes_concrete(len(vals), 8)
    for x in vals:
        out = out + x.to_bytes(width, "little", signed=True)
    return out


def _reads_as(data, width, vals):
    """the reference reader finds exactly `vals` in `data`"""
    if len(data) != 8 + width * len(vals):
        return False
    if R.le_value(data[0:8], 8, False) != len(vals):
        return False
    for i in range(len(vals)):
        if R.le_value(data[8 + width * i: 8 + width * (i + 1)], width, True) != vals[i]:
            return False
    return True


def known(v: List[int], w: int) -> bool:
    """
    pre: len(v) <= 2 and all(_i16(x) for x in v) and _i16(w)
    post: __return__
    """
    acts = SHARD["acts"]
    t0 = "sequence<int16_t>"
    msg = AuxData_pb2.AuxData()
    msg.type_name = t0
    msg.data = _seq_bytes(v, 2)
    ad = gtirb.AuxData._from_protobuf(msg, _IR)
    # model
    raw, raw_held, loaded_type, cur_type, cur = msg.data, True, t0, t0, list(v)
    ref = None          # a reference to the decoded value obtained earlier by the caller
    for a in list(acts) + ["final"]:
        if a == "leave":
            pass
        elif a == "read":
            got = ad.data
            if not (isinstance(got, list) and got == cur):
                return fail("decoded value differs from the stored one")
            ref = got
            raw_held = False
        elif a == "mutate":
            ad.data.append(w)
            cur = cur + [w]
            raw_held = False
        elif a == "mutate_ref":
            # in-place edit through a reference taken earlier, without touching .data again
            if ref is None:
                ref = ad.data
                raw_held = False
            ref.append(w)
            cur = cur + [w]
        elif a == "assign":
            ad.data = [w]
            cur = [w]
            ref = None
            raw_held = False
        elif a == "type_same":
            ad.type_name = cur_type
        elif a == "type_other":
            cur_type = "sequence<int32_t>" if cur_type == t0 else t0
            ad.type_name = cur_type
        else:
            out = ad._to_protobuf()
            if out.type_name != cur_type:
                return fail("written type name %r, current type name %r" % (out.type_name, cur_type))
            if raw_held and cur_type == loaded_type:
                if out.data != raw:
                    return fail("untouched table not written back byte for byte")
            else:
                if not _reads_as(out.data, WIDTH[cur_type], cur):
                    return fail("table written is not the encoding of its current value under %s (after %s)" % (cur_type, acts))
            if a == "reload":
                ad = gtirb.AuxData._from_protobuf(out, _IR)
                raw, raw_held, loaded_type = out.data, True, cur_type
                ref = None
            elif a == "save" and cur_type != loaded_type:
                # a save under another type name decodes the table: from now on the value, not the loaded bytes, is authoritative
                raw_held = False
    return done()


def known_tuple(x: int, w: int) -> bool:
    """
    pre: 0 <= x < 256 and _i16(w)
    post: __return__
    """
    # a table whose top-level value is immutable (tuple) but whose components are not: in-place edits of a component must be saved
    acts = SHARD["acts"]
    t0 = "tuple<uint8_t,sequence<int16_t>>"
    msg = AuxData_pb2.AuxData()
    msg.type_name = t0
    msg.data = bytes([0]) [:0] + x.to_bytes(1, "little") + _seq_bytes([5], 2)
    ad = gtirb.AuxData._from_protobuf(msg, _IR)
    raw, raw_held, cur = msg.data, True, [5]
    for a in list(acts) + ["final"]:
        if a == "read":
            got = ad.data
            if not (isinstance(got, tuple) and got[0] == x and got[1] == cur):
                return fail("decoded tuple value")
            raw_held = False
        elif a == "mutate":
            ad.data[1].append(w)
            cur = cur + [w]
            raw_held = False
        elif a == "leave":
            pass
        else:
            out = ad._to_protobuf()
            if out.type_name != t0:
                return fail("type name")
            if raw_held:
                if out.data != raw:
                    return fail("untouched tuple table not written back byte for byte")
            else:
                if len(out.data) < 1 or out.data[0] != x or not _reads_as(out.data[1:], 2, cur):
                    return fail("tuple table written is not the encoding of its current value (after %s)" % acts)
            if a == "reload":
                ad = gtirb.AuxData._from_protobuf(out, _IR)
                raw, raw_held = out.data, True
    return done()


# unknown / partially unknown / non-canonical tables: payload bytes are concrete representatives
def _u64(n):
    return R.le_bytes_concrete(n, 8)


TABLES = [
    # (type name, raw bytes, involves an unknown codec?, value after a read if decodable, canonical re-encoding)
    ("foo", b"", True, None, None),
    ("foo", b"\x01", True, None, None),
    ("foo<bar,baz>", _u64(3) + b"abc", True, None, None),
    ("mapping<string,foo>", _u64(1) + _u64(1) + b"k" + b"\x07\x08", True, None, None),
    ("mapping<string,foo>", _u64(0), False, {}, _u64(0)),                       # empty: decodable, nothing unknown is reached
    ("sequence<foo>", _u64(2) + b"\x00\x01", True, None, None),
    ("sequence<foo>", _u64(0), False, [], _u64(0)),
    ("tuple<uint8_t,sequence<mapping<UUID,foo>>>", b"\x05" + _u64(1) + _u64(1) + bytes(16) + b"zz", True, None, None),
    ("set<uint8_t>", _u64(2) + b"\x05\x05", False, {5}, _u64(1) + b"\x05"),     # non-canonical but decodable
    ("mapping<uint8_t,uint8_t>", _u64(2) + b"\x01\x02\x01\x03", False, {1: 3}, _u64(1) + b"\x01\x03"),
    ("string", _u64(2) + "é".encode("utf-8"), False, "é", _u64(2) + "é".encode("utf-8")),
    ("variant<uint8_t,string>", _u64(1) + _u64(1) + b"x", False, "VARIANT", _u64(1) + _u64(1) + b"x"),
    ("set<Addr>", _u64(2) + _u64(5) + _u64(5), False, {5}, _u64(1) + _u64(5)),              # non-canonical, 64-bit elements
    ("mapping<Addr,bool>", _u64(2) + _u64(1) + b"\x01" + _u64(1) + b"\x02", False, {1: True}, _u64(1) + _u64(1) + b"\x01"),
]
EQUIV = {"set<Addr>": "set<uint64_t>", "mapping<Addr,bool>": "mapping<uint64_t,bool>", "set<uint8_t>": "set<int8_t>"}
U_ACTIONS = ("leave", "read", "type_same", "reload", "read_twice", "type_unknown", "type_equiv", "clear_value")


def other(t: int, a0: int, a1: int, a2: int) -> bool:
    """
    pre: 0 <= t < len(TABLES)
    pre: 0 <= a0 < len(U_ACTIONS) and 0 <= a1 < len(U_ACTIONS) and 0 <= a2 < len(U_ACTIONS)
    post: __return__
    """
    ti = pick(t, len(TABLES))
    k = SHARD["k"]
    acts = [U_ACTIONS[pick(a, len(U_ACTIONS))] for a in (a0, a1, a2)[:k]]
    with untraced():
        why = _run_other(ti, acts)
    if why:
        return fail("table %d (%s) after %s: %s" % (ti, TABLES[ti][0], acts, why))
    count("scenarios")
    return done()


def _run_other(ti, acts):
    tname, raw0, unknown, value, canon = TABLES[ti]
    msg = AuxData_pb2.AuxData()
    msg.type_name = tname
    msg.data = raw0
    ad = gtirb.AuxData._from_protobuf(msg, _IR)
    raw, raw_held, loaded_type, cur_type = raw0, True, tname, tname
    for a in list(acts) + ["final"]:
        if a == "leave":
            pass
        elif a in ("read", "read_twice"):
            for _ in range(2 if a == "read_twice" else 1):
                got = ad.data
                if unknown or cur_type != loaded_type and raw_held and False:
                    pass
                if unknown:
                    if not (isinstance(got, gtirb.serialization.UnknownData) and bytes(got) == raw):
                        return "data of a table with an unknown codec is not its raw bytes"
                elif value == "VARIANT":
                    if not (isinstance(got, gtirb.serialization.Variant) and got.index == 1 and got.val == "x"):
                        return "variant value"
                elif raw_held and got != value:
                    return "decoded value %r, expected %r" % (got, value)
            raw_held = False
        elif a == "type_same":
            ad.type_name = cur_type
        elif a == "type_equiv":
            # a different type name with the same layout (Addr / uint64_t): still "a different type name" - the table must be
            # written as the encoding of its current value, which for non-canonical loaded bytes differs from them
            if tname not in EQUIV or cur_type != tname:
                continue
            cur_type = EQUIV[tname]
            ad.type_name = cur_type
        elif a == "clear_value":
            # an in-place edit that leaves an empty (falsy) value
            if unknown or value in (None, "VARIANT") or not hasattr(value, "clear") or cur_type != loaded_type:
                continue
            ad.data.clear()
            raw_held = False
            value = type(value)()
            canon = _u64(0)
        elif a == "type_unknown":
            # renaming to a type without codec is only meaningful for tables whose data is raw bytes anyway
            if not unknown:
                continue
            cur_type = "renamed<foo>"
            ad.type_name = cur_type
        else:
            out = ad._to_protobuf()
            if out.type_name != cur_type:
                return "written type name %r, current %r" % (out.type_name, cur_type)
            if unknown:
                if out.data != raw:
                    return "bytes of a table with an unknown codec changed across save"
            elif raw_held and cur_type == loaded_type:
                if out.data != raw:
                    return "untouched table not written back byte for byte"
            else:
                if out.data != canon:
                    return "read table written as %r, encoding of its value is %r" % (bytes(out.data), canon)
            if a == "reload":
                ad = gtirb.AuxData._from_protobuf(out, _IR)
                raw, raw_held, loaded_type = bytes(out.data), True, cur_type
                if not unknown:
                    # after a canonicalising save the loaded bytes are the canonical ones
                    pass
    return None


def container_level(n_ir: int, n_mod: int) -> bool:
    """
    pre: 0 <= n_ir < 4 and 0 <= n_mod < 4
    post: __return__
    """
    # tables hang off IR and Module (several per container, of different encoded lengths): none is lost or renamed by an IR-level
    # save/load, freshly built ones are written exactly as the reference encoding, untouched ones byte for byte
    a, b = pick(n_ir, 4), pick(n_mod, 4)
    with untraced():
        ir = gtirb.IR(uuid=UUID(int=1))
        m = gtirb.Module(name="m", uuid=UUID(int=2), ir=ir)
        want_ir, want_m = {}, {}
        for i in range(a):
            val = {k: "v" * (3 - i) for k in range(3 - i)}               # later tables are shorter than earlier ones
            ir.aux_data["t%d" % i] = gtirb.AuxData(val, "mapping<uint8_t,string>")
            want_ir["t%d" % i] = R.ref_encode(("mapping", (("uint8_t", ()), ("string", ()))), val)
        for i in range(b):
            if i == 1:
                m.aux_data["u1"] = gtirb.AuxData(gtirb.serialization.UnknownData(b"\x01\x02"), "foo")
                want_m["u1"] = b"\x01\x02"
            else:
                val = list(range(6 - 2 * i))
                m.aux_data["u%d" % i] = gtirb.AuxData(val, "sequence<uint32_t>")
                want_m["u%d" % i] = R.ref_encode(("sequence", (("uint32_t", ()),)), val)
        p1 = ir._to_protobuf()
        ok = sorted(p1.aux_data.keys()) == sorted(want_ir) and sorted(p1.modules[0].aux_data.keys()) == sorted(want_m)
        for k, w in want_ir.items():
            ok = ok and bytes(p1.aux_data[k].data) == w and p1.aux_data[k].type_name == "mapping<uint8_t,string>"
        for k, w in want_m.items():
            ok = ok and bytes(p1.modules[0].aux_data[k].data) == w
        ir2 = gtirb.IR._from_protobuf(p1, None)
        for k in list(ir2.aux_data)[:1]:
            ir2.aux_data[k].data                           # one table read, the others untouched
        p2 = ir2._to_protobuf()
        for k, w in want_ir.items():
            ok = ok and bytes(p2.aux_data[k].data) == w
        for k, w in want_m.items():
            ok = ok and bytes(p2.modules[0].aux_data[k].data) == w
        ok = ok and all(ir2.aux_data[k] is not ir.aux_data[k] for k in ir.aux_data)
    if not ok:
        return fail("IR/module level tables lost, renamed or not written as the encoding of their value (%d IR tables, %d module tables)" % (a, b))
    return done()


ASSUMPTIONS = [
    "pure-Python protobuf backend under the solver (message objects hold the symbolic bytes); upb in witness replay",
    "payload bytes of unknown parts are concrete representatives: UnknownData is a bytes subclass whose C constructor realises them; the logic under test never inspects them",
    "a save under a different type name decodes the table (an internal read); sequences that change the type name back and forth without a reload are judged by the "
    "model with that read taken into account only through the reload action",
]
OUTSIDE = "element counts above 2 (+1 appended) for the symbolic table; unknown payloads other than the listed representatives; more than 3 actions per generation"
BOUNDS = {
    "quick": "known table sequence<int16_t> with <= 2 symbolic elements and a symbolic appended/assigned value x every action sequence of length <= 2 over "
             "{leave, read, mutate in place, mutate through an earlier reference, assign data, type_name=same, type_name=other known type, save, save+reload}; a tuple<uint8_t,sequence<int16_t>> table with in-place edits of its list component; %d unknown / partially unknown / empty / non-canonical / "
             "non-ASCII / variant tables x every sequence of <= 2 over {leave, read, read twice, type_name=same, type_name=unknown, save+reload}; IR and module level tables" % len(TABLES),
    "thorough": "as quick with action sequences of length <= 3",
}
REPLAY_BACKENDS = [None, "python"]


def shards(tier):
    import itertools

    K = 2 if tier == "quick" else 3
    out = []
    for k in range(0, K + 1):
        for acts in itertools.product(ACTIONS, repeat=k):
            out.append({"fn": "known", "consts": {"acts": list(acts)}, "timeout": 600, "twin": "first", "cover": "first"})
    if K == 2:
        # three-step sequences in which an earlier save or reload could leave something stale behind
        for acts in (("read", "save", "mutate_ref"), ("mutate", "save", "mutate_ref"), ("read", "reload", "mutate"), ("assign", "save", "mutate_ref"),
                     ("read", "save", "assign"), ("type_other", "save", "mutate"), ("save", "read", "mutate_ref"),
                     ("mutate", "save", "type_other"), ("read", "save", "type_other"), ("assign", "save", "type_other"), ("save", "type_other", "save")):
            out.append({"fn": "known", "consts": {"acts": list(acts)}, "timeout": 600, "twin": False, "cover": False})
    for k in range(0, K + 1):
        for acts in itertools.product(("leave", "read", "mutate", "save", "reload"), repeat=k):
            out.append({"fn": "known_tuple", "consts": {"acts": list(acts)}, "timeout": 600, "twin": "first", "cover": "first"})
    for k in range(1, K + 1):
        out.append({"fn": "other", "consts": {"k": k}, "timeout": 900})
    out.append({"fn": "container_level", "consts": {}, "timeout": 300})
    return out
