"""C02 - writer and reader each agree with the protobuf schema field by field (DESIGN 4, C02)."""
from proto_h import *  # noqa: F401,F403
import proto_h as P

BOUNDS = {
    "all": "writer: interval (Optional address, size, 0-2 content bytes, block offset/size u64, kind, decode mode), module (preferred_addr u64, rebase_delta i64, every ISA / "
           "FileFormat / ByteOrder constant, names incl. empty, non-ASCII, NUL), symbol (payload none/value u64/code/data/proxy, at_end), expression (kind, offset/scale i64, "
           "keys 0 and 2^64-1, known and unknown attribute numbers), CFG (label None vs symbolic flags, every edge type, parallel and self edges), sections/shapes (<= 2 modules x "
           "<= 2 sections x <= 2 intervals, 3 construction orders, flag sets), cfg.vertices, AuxData keys/type names, 8-byte header; reader: the same kinds built from the "
           "descriptors incl. has_address=False with a non-zero address, explicit defaults, every declared enum number (one path per constant) and undeclared numbers",
}
OUTSIDE = ("more than 5 symbolic scalars at once; more than two children per parent; wire bytes beyond the header (protobuf's own codec; replay only); the upb backend (replay only)")


def _wr(oracle, tier="quick"):
    out = []
    for clen in (0, 2):
        for kind, dm in (("code", 0), ("code", 1), ("data", 0)):
            out.append({"fn": "w_interval", "consts": {"oracle": oracle, "clen": clen, "kind": kind, "dm": dm}, "timeout": 900})
    out.append({"fn": "w_interval", "consts": {"oracle": oracle, "clen": 1, "kind": "data", "dm": 0}, "timeout": 900})     # stored bytes end in 0x00
    # every enum constant once (others at a non-default constant so that a swapped field shows)
    n = max(len(P.ISAS), len(P.FFS), len(P.BOS))
    for i in range(n):
        out.append({"fn": "w_module", "consts": {"oracle": oracle, "isa": i % len(P.ISAS), "ff": (i + 3) % len(P.FFS), "bo": (i + 1) % len(P.BOS),
                                                 "name": i % len(P.NAMES), "bpath": (i + 2) % len(P.NAMES)}, "timeout": 600})
    for pk in ("none", "value", "code", "data", "proxy"):
        out.append({"fn": "w_symbol", "consts": {"oracle": oracle, "pk": pk, "name": 0 if pk == "value" else 2}, "timeout": 600})
    for pk in ("code", "data"):
        out.append({"fn": "w_symbol", "consts": {"oracle": oracle, "pk": pk, "name": 1, "bsize": 0}, "timeout": 600})
    for kind in ("const", "addr"):
        for key, amask in ((0, 0), (2 ** 64 - 1, 7), (5, 4), (5, 3)):
            out.append({"fn": "w_expr", "consts": {"oracle": oracle, "kind": kind, "key": key, "amask": amask}, "timeout": 600})
    for lt in range(-1, len(P.ETYPES)):
        out.append({"fn": "w_cfg", "consts": {"oracle": oracle, "lt": lt, "shape": (lt + 1) % 3}, "timeout": 600})
    out.append({"fn": "w_shape", "consts": {"oracle": oracle}, "timeout": 1500})
    if tier != "quick":
        for order in (0, 1):
            out.append({"fn": "w_combo", "consts": {"oracle": oracle, "order": order}, "timeout": 1800})
        for clen in (1,):
            for kind, dm in (("code", 1), ("data", 0)):
                out.append({"fn": "w_interval", "consts": {"oracle": oracle, "clen": clen, "kind": kind, "dm": dm}, "timeout": 900})
        for i in range(len(P.ISAS)):
            for j in (1, 5):
                out.append({"fn": "w_module", "consts": {"oracle": oracle, "isa": i, "ff": (i * j + 1) % len(P.FFS), "bo": (i + j) % len(P.BOS),
                                                         "name": (i + j) % len(P.NAMES), "bpath": i % len(P.NAMES)}, "timeout": 600})
    for t in range(len(P.AUX_TYPES)):
        out.append({"fn": "w_aux", "consts": {"oracle": oracle, "t": t, "level": ("ir", "module")[t % 2]}, "timeout": 600})
    if oracle == "roundtrip":
        for t in (2, 3, 4):
            out.append({"fn": "w_aux", "consts": {"oracle": oracle, "t": t, "level": ("module", "ir")[t % 2], "presave": 1}, "timeout": 600})
    return out


def shards(tier):
    out = _wr("writer", tier)
    out.append({"fn": "header", "consts": {"oracle": "writer"}, "timeout": 300})
    out.append({"fn": "w_oversize", "consts": {"oracle": "writer"}, "timeout": 300})
    out.append({"fn": "w_aux_renamed", "consts": {"oracle": "writer"}, "timeout": 600})
    for kind, dm in (("code", 0), ("code", 1), ("data", 0)):
        out.append({"fn": "r_interval", "consts": {"oracle": "reader", "kind": kind, "dm": dm}, "timeout": 900})
    for which in ("isa", "ff", "bo"):
        out.append({"fn": "r_module", "consts": {"oracle": "reader", "which": which, "name": 2, "bpath": 0}, "timeout": 900})
    for pk in ("none", "value", "code", "data", "proxy"):
        out.append({"fn": "r_symbol", "consts": {"oracle": "reader", "pk": pk, "name": 0 if pk == "none" else 3}, "timeout": 600})
    for kind in ("const", "addr"):
        for key, nflags in ((0, 0), (2 ** 64 - 1, 1), (3, 2)):
            out.append({"fn": "r_expr", "consts": {"oracle": "reader", "kind": kind, "key": key, "nflags": nflags, "cross": 1 if (kind == "addr" and key == 0) else 0}, "timeout": 900})
    out.append({"fn": "r_expr", "consts": {"oracle": "reader", "kind": "const", "key": 1, "nflags": 0, "cross": 1}, "timeout": 900})
    for has_label in (0, 1):
        out.append({"fn": "r_edge", "consts": {"oracle": "reader", "has_label": has_label}, "timeout": 600})
    for two in (0, 1):
        out.append({"fn": "r_section", "consts": {"oracle": "reader", "two": two, "name": 2 * two}, "timeout": 600})
    return out
