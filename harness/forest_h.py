"""Structure-only harnesses for C03 (UUID lookup) and C04 (containment forest) - DESIGN 4, C03/C04.

Inductive step per parent/child relation: a pre-state shape (which child hangs where, how the
candidate parents are connected upward) is chosen by small symbolic integers, built through the
public API, then ONE operation of the relation's alphabet is applied and both oracles are evaluated.
Once the choice integers are decoded everything is concrete, so construction, operation and oracle
run with tracing suspended; the verdict is CrossHair's exhaustion of the path tree over the choices.
"""
from typing import Tuple
from uuid import UUID

from hbase import SHARD, count, done, fail, known, pick, untraced

import gtirb

RELS = ("ir_mod", "mod_sec", "mod_sym", "mod_prx", "sec_bi", "bi_blk")
ALLOWED_EXC = (KeyError, IndexError, ValueError)


class World:
    pass


def _mk_module(n, full):
    m = gtirb.Module(name="m%d" % n, uuid=UUID(int=100 + n))
    nodes = [m]
    if full:
        s = gtirb.Section(name="s%d" % n, uuid=UUID(int=110 + n), module=m)
        bi = gtirb.ByteInterval(size=8, address=0x10 * n, uuid=UUID(int=120 + n), section=s)
        cb = gtirb.CodeBlock(size=2, offset=0, uuid=UUID(int=130 + n), byte_interval=bi)
        db = gtirb.DataBlock(size=2, offset=2, uuid=UUID(int=140 + n), byte_interval=bi)
        sy = gtirb.Symbol("y%d" % n, uuid=UUID(int=150 + n), payload=cb, module=m)
        px = gtirb.ProxyBlock(uuid=UUID(int=160 + n), module=m)
        nodes += [s, bi, cb, db, sy, px]
    return m, nodes


def build(rel, shape):
    """-> World with .irs, .parents, .children, .pool (all nodes), .coll(parent) accessor"""
    w = World()
    w.rel = rel
    w.irs = [gtirb.IR(uuid=UUID(int=1)), gtirb.IR(uuid=UUID(int=2))]
    pool = list(w.irs)
    if rel == "ir_mod":
        # children: three modules (c0 with a full-depth subtree); shape = attachment of each (0 none, 1 irA, 2 irB), applied in order
        att = shape[:3]
        w.parents = w.irs
        w.children = []
        for n in range(3):
            m, nodes = _mk_module(n, full=(n == 0))
            if n == 1:
                s = gtirb.Section(name="s1", uuid=UUID(int=111), module=m)
                nodes.append(s)
            w.children.append(m)
            pool += nodes
        order = (0, 1, 2) if shape[3] == 0 else (2, 1, 0)
        for n in order:
            if att[n]:
                w.children[n].ir = w.irs[att[n] - 1]
        w.attr = "ir"
        w.collname = "modules"
    else:
        up = shape[0:2]
        att = shape[2:4]
        chains = []
        for k in range(2):
            # ancestors of candidate parent k, top-down: module, section, interval as far as needed
            m = gtirb.Module(name="pm%d" % k, uuid=UUID(int=200 + k))
            s = gtirb.Section(name="ps%d" % k, uuid=UUID(int=210 + k))
            bi = gtirb.ByteInterval(size=8, address=0x100 * (k + 1), uuid=UUID(int=220 + k))
            chains.append((m, s, bi))
            pool += [m]
        level = {"mod_sec": 0, "mod_sym": 0, "mod_prx": 0, "sec_bi": 1, "bi_blk": 2}[rel]
        w.parents = [c[level] for c in chains]
        for k in range(2):
            m, s, bi = chains[k]
            u = up[k]
            if level >= 1:
                pool.append(s)
            if level >= 2:
                pool.append(bi)
            if level == 0:
                # u: 0 none, 1 irA, 2 irB (3 folded onto 2)
                if u >= 1:
                    m.ir = w.irs[0 if u == 1 else 1]
            else:
                # u: 0 parent has no ancestors, 1 chain up to a module outside every IR, 2 irA, 3 irB
                if u >= 1:
                    if level == 2:
                        bi.section = s
                    s.module = m
                    if u >= 2:
                        m.ir = w.irs[u - 2]
        w.children = []
        for j in range(2):
            if rel == "mod_sec":
                c = gtirb.Section(name="c%d" % j, uuid=UUID(int=300 + j))
                pool.append(c)
                if j == 0:
                    b = gtirb.ByteInterval(size=4, address=0x40, uuid=UUID(int=310), section=c)
                    cb = gtirb.CodeBlock(size=1, uuid=UUID(int=320), byte_interval=b)
                    pool += [b, cb]
            elif rel == "mod_sym":
                c = gtirb.Symbol("c%d" % j, uuid=UUID(int=300 + j), payload=(None if j else 7))
                pool.append(c)
            elif rel == "mod_prx":
                c = gtirb.ProxyBlock(uuid=UUID(int=300 + j))
                pool.append(c)
            elif rel == "sec_bi":
                c = gtirb.ByteInterval(size=4, address=0x40 + j, uuid=UUID(int=300 + j))
                pool.append(c)
                if j == 0:
                    cb = gtirb.CodeBlock(size=1, uuid=UUID(int=320), byte_interval=c)
                    db = gtirb.DataBlock(size=1, offset=1, uuid=UUID(int=321), byte_interval=c)
                    pool += [cb, db]
            else:
                c = (gtirb.CodeBlock if j == 0 else gtirb.DataBlock)(size=1, offset=j, uuid=UUID(int=300 + j))
                pool.append(c)
            w.children.append(c)
        w.attr = {"mod_sec": "module", "mod_sym": "module", "mod_prx": "module", "sec_bi": "section", "bi_blk": "byte_interval"}[rel]
        w.collname = {"mod_sec": "sections", "mod_sym": "symbols", "mod_prx": "proxies", "sec_bi": "byte_intervals", "bi_blk": "blocks"}[rel]
        for j in range(2):
            if att[j]:
                setattr(w.children[j], w.attr, w.parents[att[j] - 1])
    w.pool = pool
    return w


def coll(w, p):
    return getattr(p, w.collname)


# ---- operations ---------------------------------------------------------------
def _new_child(w, parent, n):
    kw = {"uuid": UUID(int=900 + n)}
    rel = w.rel
    if rel == "ir_mod":
        return gtirb.Module(name="new", ir=parent, **kw)
    if rel == "mod_sec":
        return gtirb.Section(name="new", module=parent, **kw)
    if rel == "mod_sym":
        return gtirb.Symbol("new", module=parent, **kw)
    if rel == "mod_prx":
        return gtirb.ProxyBlock(module=parent, **kw)
    if rel == "sec_bi":
        return gtirb.ByteInterval(size=1, section=parent, **kw)
    return gtirb.DataBlock(size=1, byte_interval=parent, **kw)


def _new_parent(w, kids, n, up):
    kw = {"uuid": UUID(int=950 + n)}
    rel = w.rel
    if rel == "ir_mod":
        return gtirb.IR(modules=kids, **kw)
    if rel == "mod_sec":
        return gtirb.Module(name="np", sections=kids, ir=up, **kw)
    if rel == "mod_sym":
        return gtirb.Module(name="np", symbols=kids, ir=up, **kw)
    if rel == "mod_prx":
        return gtirb.Module(name="np", proxies=kids, ir=up, **kw)
    if rel == "sec_bi":
        return gtirb.Section(name="np", byte_intervals=kids, module=up, **kw)
    return gtirb.ByteInterval(size=4, blocks=kids, section=up, **kw)


def set_ops(w):
    """[(name, callable(world) -> None, expected parent of c0 afterwards or Ellipsis if unspecified)]"""
    P0, P1 = w.parents
    c0, c1 = w.children[0], w.children[1]
    A = w.attr
    ops = []

    def op(name, f, exp=Ellipsis):
        ops.append((name, f, exp))

    for j, c in enumerate((c0, c1)):
        op("c%d.parent=None" % j, lambda c=c: setattr(c, A, None), None if j == 0 else Ellipsis)
        op("c%d.parent=P0" % j, lambda c=c: setattr(c, A, P0), P0 if j == 0 else Ellipsis)
        op("c%d.parent=P1" % j, lambda c=c: setattr(c, A, P1), P1 if j == 0 else Ellipsis)
        op("P0.add(c%d)" % j, lambda c=c: coll(w, P0).add(c), P0 if j == 0 else Ellipsis)
        op("P0.discard(c%d)" % j, lambda c=c: coll(w, P0).discard(c), "notP0" if j == 0 else Ellipsis)
        op("P0.remove(c%d)" % j, lambda c=c: coll(w, P0).remove(c), "notP0" if j == 0 else Ellipsis)
        op("P0|={c%d}" % j, lambda c=c: _ior(coll(w, P0), {c}), P0 if j == 0 else Ellipsis)
        op("P0-={c%d}" % j, lambda c=c: _isub(coll(w, P0), {c}), "notP0" if j == 0 else Ellipsis)
        op("P0&={c%d}" % j, lambda c=c: _iand(coll(w, P0), {c}))
        op("P0^={c%d}" % j, lambda c=c: _ixor(coll(w, P0), {c}))
    op("P0.pop()", lambda: coll(w, P0).pop())
    op("P0.clear()", lambda: coll(w, P0).clear(), "notP0")
    op("P1.clear()", lambda: coll(w, P1).clear())
    op("P0.update([c0,c1])", lambda: coll(w, P0).update([c0, c1]), P0)
    op("P0.update([c0],[c1])", lambda: coll(w, P0).update([c0], [c1]), P0)
    op("P0.update()", lambda: coll(w, P0).update())
    op("P0.update(generator of c0,c1)", lambda: coll(w, P0).update(c for c in (c0, c1)), P0)
    op("P0.update(iter([c1]),iter([c0]))", lambda: coll(w, P0).update(iter([c1]), iter([c0])), P0)
    op("P1.update(map over c0)", lambda: coll(w, P1).update(map(lambda x: x, [c0])), P1)
    op("P0^={c0,c1}", lambda: _ixor(coll(w, P0), {c0, c1}))
    op("P0&=set()", lambda: _iand(coll(w, P0), set()))
    op("new child(parent=P0)", lambda: w.pool.append(_new_child(w, P0, 0)))
    op("new child(parent=P1)", lambda: w.pool.append(_new_child(w, P1, 1)))
    return ops


def _ior(c, s):
    c |= s


def _isub(c, s):
    c -= s


def _iand(c, s):
    c &= s


def _ixor(c, s):
    c ^= s


def ctor_ops(w):
    """construction with children= (needs the upward parent of the *new* parent)"""
    c0, c1 = w.children[0], w.children[1]
    ups = [None] + (list(w.irs) if w.rel in ("mod_sec", "mod_sym", "mod_prx") else [])
    if w.rel == "sec_bi":
        ups = [None] + [p.module for p in w.parents if p.module is not None][:1]
    if w.rel == "bi_blk":
        ups = [None] + [p.section for p in w.parents if p.section is not None][:1]
    ops = []
    for ui, up in enumerate(ups):
        for ki, kids in enumerate(([c0], [c0, c1], [c1, c0])):
            def f(up=up, kids=kids, n=ui * 3 + ki):
                np_ = _new_parent(w, list(kids), n, up)
                w.pool.append(np_)
                w.extra_parent = np_
            ops.append(("new parent(children=%s, up=%d)" % (["c%d" % w.children.index(k) for k in kids], ui), f, "extra"))
    return ops


def list_ops(w):
    """operations on irA.modules (P0 = irA) with module arguments c0, c1, c2"""
    P0, P1 = w.irs
    L = P0.modules
    cs = w.children
    ops = []

    def op(name, f, exp=Ellipsis):
        ops.append((name, f, exp))

    for j, c in enumerate(cs):
        op("c%d.ir=None" % j, lambda c=c: setattr(c, "ir", None))
        op("c%d.ir=irA" % j, lambda c=c: setattr(c, "ir", P0))
        op("c%d.ir=irB" % j, lambda c=c: setattr(c, "ir", P1))
        op("append(c%d)" % j, lambda c=c: L.append(c))
        for i in (0, 1, 5, -1):
            op("insert(%d,c%d)" % (i, j), lambda c=c, i=i: L.insert(i, c))
        op("remove(c%d)" % j, lambda c=c: L.remove(c))
        for i in (0, 1, 2, -1, 3):
            op("[%d]=c%d" % (i, j), lambda c=c, i=i: L.__setitem__(i, c))
        op("+=[c%d]" % j, lambda c=c: _iadd(L, [c]))
    for i in (0, 1, -1, 3):
        op("del[%d]" % i, lambda i=i: L.__delitem__(i))
        op("pop(%d)" % i, lambda i=i: L.pop(i))
    op("pop()", lambda: L.pop())
    for sl in ((0, 1, None), (1, None, None), (None, None, None), (None, None, 2), (None, None, -1), (1, 1, None)):
        op("del[%s:%s:%s]" % sl, lambda sl=sl: L.__delitem__(slice(*sl)))
        for vi, vals in enumerate(([], [cs[0]], [cs[2], cs[1]], [cs[0], cs[1], cs[2]], [cs[2], cs[2]])):
            op("[%s:%s:%s]=%s" % (sl + (["c%d" % cs.index(v) for v in vals],)), lambda sl=sl, vals=vals: L.__setitem__(slice(*sl), list(vals)))
    op("extend([c0,c1])", lambda: L.extend([cs[0], cs[1]]))
    op("extend(generator of c1,c0)", lambda: L.extend(c for c in (cs[1], cs[0])))
    op("+=iter([c2])", lambda: _iadd(L, iter([cs[2]])))
    op("[0:1]=generator of c2", lambda: L.__setitem__(slice(0, 1), (c for c in (cs[2],))))
    op("extend([c2,c2])", lambda: L.extend([cs[2], cs[2]]))
    op("reverse()", lambda: L.reverse())
    op("clear()", lambda: L.clear())
    op("new module(ir=irA)", lambda: w.pool.append(_new_child(w, P0, 0)))
    op("IR(modules=[c0,c1])", lambda: w.pool.append(gtirb.IR(modules=[cs[0], cs[1]], uuid=UUID(int=950))))
    return ops


def _iadd(lst, x):
    lst += x


# ---- oracles -------------------------------------------------------------------
def _children_of(n):
    """(collection name, iterable) pairs by node kind"""
    if isinstance(n, gtirb.IR):
        return [("modules", n.modules, "ir")]
    if isinstance(n, gtirb.Module):
        return [("sections", n.sections, "module"), ("symbols", n.symbols, "module"), ("proxies", n.proxies, "module")]
    if isinstance(n, gtirb.Section):
        return [("byte_intervals", n.byte_intervals, "section")]
    if isinstance(n, gtirb.ByteInterval):
        return [("blocks", n.blocks, "byte_interval")]
    return []


def _kind_ok(child, collname):
    return {
        "modules": gtirb.Module, "sections": gtirb.Section, "symbols": gtirb.Symbol, "proxies": gtirb.ProxyBlock,
        "byte_intervals": gtirb.ByteInterval, "blocks": gtirb.ByteBlock,
    }[collname]


def check_forest(pool):
    """C04: collections and parent attributes agree, no node twice / in two parents, derived accessors follow."""
    for p in pool:
        for (cname, col, attr) in _children_of(p):
            items = list(col)
            for i in range(len(items)):
                for j in range(i):
                    if items[i] is items[j]:
                        return "%s appears twice in %s.%s" % (_nm(items[i]), _nm(p), cname)
            if len(col) != len(items):
                return "len(%s.%s) disagrees with its iteration" % (_nm(p), cname)
            for c in items:
                if getattr(c, attr) is not p:
                    return "%s is in %s.%s but its %s is %s" % (_nm(c), _nm(p), cname, attr, _nm(getattr(c, attr)))
                if not any(c is x for x in pool):
                    return "unknown node %s in %s.%s" % (_nm(c), _nm(p), cname)
                if c not in col:
                    return "%s iterated but not `in` %s.%s" % (_nm(c), _nm(p), cname)
    for c in pool:
        for attr, cname in (("ir", "modules"), ("module", None), ("section", "byte_intervals"), ("byte_interval", "blocks")):
            if isinstance(c, gtirb.IR) or not hasattr(type(c), attr):
                continue
            direct = {gtirb.Module: "ir", gtirb.Section: "module", gtirb.Symbol: "module", gtirb.ProxyBlock: "module",
                      gtirb.ByteInterval: "section", gtirb.CodeBlock: "byte_interval", gtirb.DataBlock: "byte_interval"}[type(c)]
            if attr != direct:
                continue
            par = getattr(c, attr)
            if par is not None:
                cn = {gtirb.Module: "modules", gtirb.Section: "sections", gtirb.Symbol: "symbols", gtirb.ProxyBlock: "proxies",
                      gtirb.ByteInterval: "byte_intervals", gtirb.CodeBlock: "blocks", gtirb.DataBlock: "blocks"}[type(c)]
                if not any(c is x for x in getattr(par, cn)):
                    return "%s.%s is %s but %s does not hold it" % (_nm(c), attr, _nm(par), _nm(par))
    # derived accessors
    for n in pool:
        why = _derived(n)
        if why:
            return why
    return None


def _nm(n):
    if n is None:
        return "None"
    return "%s#%d" % (type(n).__name__, n.uuid.int)


def _up(n):
    t = type(n)
    if t is gtirb.Module:
        return n.ir
    if t in (gtirb.Section, gtirb.Symbol, gtirb.ProxyBlock):
        return n.module
    if t is gtirb.ByteInterval:
        return n.section
    if t in (gtirb.CodeBlock, gtirb.DataBlock):
        return n.byte_interval
    return None


def _ancestor(n, cls):
    x = _up(n)
    while x is not None and not isinstance(x, cls):
        x = _up(x)
    return x


def _ids(it):
    return sorted(id(x) for x in it)


def _derived(n):
    if not isinstance(n, gtirb.IR):
        if n.ir is not _ancestor(n, gtirb.IR):
            return "%s.ir is not what the forest implies" % _nm(n)
    if isinstance(n, (gtirb.ByteInterval, gtirb.CodeBlock, gtirb.DataBlock)):
        if n.module is not _ancestor(n, gtirb.Module):
            return "%s.module is not what the forest implies" % _nm(n)
    if isinstance(n, (gtirb.CodeBlock, gtirb.DataBlock)):
        if n.section is not _ancestor(n, gtirb.Section):
            return "%s.section is not what the forest implies" % _nm(n)

    def walk(x):
        out = [x]
        for (_c, col, _a) in _children_of(x):
            for c in col:
                out += walk(c)
        return out

    if isinstance(n, (gtirb.IR, gtirb.Module, gtirb.Section)):
        below = walk(n)[1:]
        bb = [x for x in below if isinstance(x, gtirb.ByteBlock)]
        checks = [("byte_blocks", bb), ("code_blocks", [x for x in bb if isinstance(x, gtirb.CodeBlock)]),
                  ("data_blocks", [x for x in bb if isinstance(x, gtirb.DataBlock)])]
        if isinstance(n, (gtirb.IR, gtirb.Module)):
            checks += [("byte_intervals", [x for x in below if isinstance(x, gtirb.ByteInterval)]),
                       ("cfg_nodes", [x for x in below if isinstance(x, gtirb.CfgNode)])]
        if isinstance(n, gtirb.IR):
            checks += [("sections", [x for x in below if isinstance(x, gtirb.Section)]),
                       ("symbols", [x for x in below if isinstance(x, gtirb.Symbol)]),
                       ("proxy_blocks", [x for x in below if isinstance(x, gtirb.ProxyBlock)])]
        for name, exp in checks:
            if _ids(getattr(n, name)) != _ids(exp):
                return "%s.%s is not what the forest implies" % (_nm(n), name)
    return None


def check_cache(pool, irs):
    """C03: get_by_uuid finds exactly the nodes reachable through containment, for every IR separately."""
    def walk(x):
        out = [x]
        for (_c, col, _a) in _children_of(x):
            for c in col:
                out += walk(c)
        return out

    for ir in irs:
        reach = {}
        for x in walk(ir):
            reach[x.uuid] = x
        for n in pool:
            got = ir.get_by_uuid(n.uuid)
            want = reach.get(n.uuid)
            if got is not want:
                return "%s.get_by_uuid(%s) is %s, reachable: %s" % (_nm(ir), _nm(n), _nm(got), _nm(want))
        if ir.get_by_uuid(UUID(int=0xDEAD)) is not None:
            return "unknown UUID resolved"
    return None


def snapshot(pool):
    """attributes of every pool node that no move operation may change"""
    snap = []
    for n in pool:
        d = {}
        for a in ("name", "binary_path", "isa", "file_format", "byte_order", "preferred_addr", "rebase_delta", "size", "offset",
                  "address", "at_end", "decode_mode", "version"):
            if isinstance(n, gtirb.Section) and a in ("size", "address"):
                continue
            if isinstance(n, (gtirb.CodeBlock, gtirb.DataBlock)) and a == "address":
                continue
            if hasattr(n, a):
                d[a] = getattr(n, a)
        if hasattr(n, "flags"):
            d["flags"] = (id(n.flags), frozenset(n.flags))
        if hasattr(n, "aux_data"):
            d["aux_data"] = (id(n.aux_data), tuple(sorted(n.aux_data)))
        if isinstance(n, gtirb.Symbol):
            d["payload"] = id(n._payload) if n.referent is not None else n._payload
        if isinstance(n, gtirb.ByteInterval):
            d["contents"] = bytes(n.contents)
            d["symexprs"] = (id(n.symbolic_expressions), tuple(n.symbolic_expressions))
        if isinstance(n, gtirb.Module):
            d["entry"] = id(n.entry_point)
        snap.append(d)
    return snap


def run_step(rel, shape, opi, which):
    """-> (None or failure text, op name, exception name or None)"""
    w = build(rel, shape)
    if rel == "ir_mod":
        ops = list_ops(w)
    else:
        ops = set_ops(w) + ctor_ops(w)
    opi = opi % len(ops)
    name, f, exp = ops[opi]
    # base case: the pre-state built through the public API satisfies both invariants
    why = check_forest(w.pool) or check_cache(w.pool, w.irs)
    if why:
        return "pre-state: " + why, name, None
    before = snapshot(w.pool)
    npool = len(w.pool)
    c0 = w.children[0]
    was_in_p0 = getattr(c0, w.attr) is w.parents[0]
    exc = None
    try:
        f()
    except Exception as e:  # noqa: BLE001
        # which exception type an operation raises is C16's subject; here the invariants must hold afterwards
        exc = type(e).__name__
    pool = w.pool
    irs = w.irs + [x for x in pool if isinstance(x, gtirb.IR) and x not in w.irs]
    why = None
    if which in ("C04", "both"):
        why = check_forest(pool)
        if why is None and snapshot(pool[:npool]) != before:
            why = "an attribute of a node not named by the operation changed"
        if why is None and exc is None and exp is not Ellipsis:
            par = getattr(c0, w.attr)
            if exp == "notP0":
                if par is w.parents[0]:
                    why = "c0 still owned by P0"
                elif not was_in_p0 and par is not None and rel != "ir_mod" and "clear" not in name and "&=" not in name:
                    pass
            elif exp == "extra":
                if par is not w.extra_parent:
                    why = "c0 not owned by the parent constructed with children=[c0..]"
            elif par is not exp:
                why = "c0.%s is %s, expected %s" % (w.attr, _nm(par), _nm(exp))
    if why is None and which in ("C03", "both"):
        why = check_cache(pool, irs)
    return why, name, exc


def run_steps(rel, shape, opis, which):
    """K operations in sequence from one pre-state; both oracles after every operation"""
    w = build(rel, shape)
    ops = list_ops(w) if rel == "ir_mod" else set_ops(w) + ctor_ops(w)
    names = []
    for opi in opis:
        name, f, _exp = ops[opi % len(ops)]
        names.append(name)
        before = snapshot(w.pool)
        npool = len(w.pool)
        try:
            f()
        except Exception:  # noqa: BLE001
            pass
        pool = w.pool
        irs = w.irs + [x for x in pool if isinstance(x, gtirb.IR) and x not in w.irs]
        why = None
        if which in ("C04", "both"):
            why = check_forest(pool)
            if why is None and snapshot(pool[:npool]) != before:
                why = "an attribute of a node not named by the operation changed"
        if why is None and which in ("C03", "both"):
            why = check_cache(pool, irs)
        if why:
            return why, ";".join(names)
    return None, ";".join(names)


def step2(s2: int, s3: int, op1: int, op2: int) -> bool:
    """
    pre: 0 <= s2 < 3 and 0 <= s3 < 3
    pre: 0 <= op1 < SHARD["nops1"] and 0 <= op2 < SHARD["nops"]
    post: __return__
    """
    rel = SHARD["rel"]
    which = SHARD["which"]
    if "shape" in SHARD:
        a, b = SHARD["shape"][0], SHARD["shape"][1]
    else:
        a, b = pick(s2, 3), pick(s3, 3)
    if rel == "ir_mod":
        shape = (a, b, SHARD["third"], 0)
    elif rel in ("mod_sec", "mod_sym", "mod_prx"):
        shape = (1, 2, a, b)
    else:
        shape = (2, 3, a, b)
    if "first_ops" in SHARD:
        o1 = SHARD["first_ops"][pick(op1, len(SHARD["first_ops"]))]
    else:
        o1 = SHARD["op_lo"] + pick(op1, SHARD["nops1"])
    o2 = pick(op2, SHARD["nops"])
    with untraced():
        why, names = run_steps(rel, shape, [o1, o2], which)
    if why is not None:
        return fail("%s shape=%s ops=%s: %s" % (rel, shape, names, why))
    count("scenarios")
    return done()


def n_ops(rel):
    w = build(rel, (0, 0, 0, 0))
    return len(list_ops(w)) if rel == "ir_mod" else len(set_ops(w) + ctor_ops(w))


def signature(rel, name, why, exc):
    """failure signature for known_findings.json: relation, operation kind, observed class"""
    kind = name
    for ch in "0123456789":
        kind = kind.replace(ch, "#")
    cls = ("exception:" + exc) if (exc and why and why.startswith("undeclared")) else "inconsistent"
    return "%s|%s|%s" % (rel, kind, cls)


def step(s0: int, s1: int, s2: int, s3: int, op: int) -> bool:
    """
    pre: 0 <= s0 < 4 and 0 <= s1 < 4 and 0 <= s2 < 3 and 0 <= s3 < 3
    pre: 0 <= op < SHARD["nops"]
    post: __return__
    """
    rel = SHARD["rel"]
    which = SHARD["which"]
    lo = SHARD.get("op_lo", 0)
    if rel == "ir_mod":
        shape = (pick(s0, 3), pick(s1, 3), pick(s2, 3), pick(s3, 2))
    elif rel in ("mod_sec", "mod_sym", "mod_prx"):
        shape = (pick(s0, 3), pick(s1, 3), pick(s2, 3), pick(s3, 3))
    else:
        shape = (pick(s0, 4), pick(s1, 4), pick(s2, 3), pick(s3, 3))
    o = lo + pick(op, SHARD["nops"])
    with untraced():
        why, name, exc = run_step(rel, shape, o, which)
        if why is not None:
            sig = signature(rel, name, why, exc)
            if known(which if which != "both" else "C04", sig, "%s shape=%s: %s" % (name, shape, why)):
                why = None
    if why is not None:
        return fail("%s shape=%s op=%s: %s" % (rel, shape, name, why))
    count("scenarios")
    return done()


# ---------------------------------------------------------------------------
# equal UUIDs in different IRs (two loads of one file / two hand-built twins)
# ---------------------------------------------------------------------------
def _twin_tree(tag):
    ir = gtirb.IR(uuid=UUID(int=1))
    m = gtirb.Module(name="m", uuid=UUID(int=10), ir=ir)
    m2 = gtirb.Module(name="m2", uuid=UUID(int=11), ir=ir)
    s = gtirb.Section(name="s", uuid=UUID(int=20), module=m)
    bi = gtirb.ByteInterval(size=4, address=0, uuid=UUID(int=30), section=s)
    cb = gtirb.CodeBlock(size=1, uuid=UUID(int=40), byte_interval=bi)
    db = gtirb.DataBlock(size=1, offset=1, uuid=UUID(int=41), byte_interval=bi)
    sy = gtirb.Symbol("y", uuid=UUID(int=50), payload=cb, module=m)
    px = gtirb.ProxyBlock(uuid=UUID(int=60), module=m)
    return ir, [ir, m, m2, s, bi, cb, db, sy, px]


TWIN_OPS = [
    ("m.ir=None", lambda n: setattr(n[1], "ir", None)),
    ("m.ir=None;m.ir=ir", lambda n: (setattr(n[1], "ir", None), setattr(n[1], "ir", n[0]))),
    ("s.module=None", lambda n: setattr(n[3], "module", None)),
    ("s.module=m2", lambda n: setattr(n[3], "module", n[2])),
    ("bi.section=None", lambda n: setattr(n[4], "section", None)),
    ("cb.byte_interval=None", lambda n: setattr(n[5], "byte_interval", None)),
    ("bi.blocks.clear()", lambda n: n[4].blocks.clear()),
    ("sy.module=None", lambda n: setattr(n[7], "module", None)),
    ("sy.module=m2", lambda n: setattr(n[7], "module", n[2])),
    ("px.module=None", lambda n: setattr(n[8], "module", None)),
    ("ir.modules.clear()", lambda n: n[0].modules.clear()),
    ("del ir.modules[0]", lambda n: n[0].modules.__delitem__(0)),
    ("ir.modules.reverse()", lambda n: n[0].modules.reverse()),
    ("m.sections.discard(s)", lambda n: n[1].sections.discard(n[3])),
    ("ir.modules[0]=m2", lambda n: n[0].modules.__setitem__(0, n[2])),
    ("nothing", lambda n: None),
]


def run_twin(how, opi, side, which):
    ira, na = _twin_tree("a")
    if how == 0:
        irb, nb = _twin_tree("b")
    else:
        msg = ira._to_protobuf()
        irb = gtirb.IR._from_protobuf(msg, None)
        if how == 2:
            ira = gtirb.IR._from_protobuf(msg, None)
            na = [ira.get_by_uuid(x.uuid) for x in na]
        nb = [irb.get_by_uuid(x.uuid) for x in na]
        if any(x is None for x in nb) or any(x is None for x in na):
            return "a loaded IR does not resolve one of its own UUIDs", "load"
        if any(x is y for x, y in zip(na, nb)):
            return "two loads share a node object", "load"
    name, f = TWIN_OPS[opi % len(TWIN_OPS)]
    try:
        f(na if side == 0 else nb)
    except Exception as e:  # noqa: BLE001
        pass
    pool = na + nb
    why = None
    if which in ("C04", "both"):
        why = check_forest(pool)
    if why is None and which in ("C03", "both"):
        why = check_cache(na, [ira]) or check_cache(nb, [irb])
        # no leakage: each IR resolves a UUID to its own node, never to the twin's
        if why is None:
            for x in nb:
                if any(ira.get_by_uuid(x.uuid) is y for y in nb):
                    why = "IR A resolves %s to IR B's node" % _nm(x)
            for x in na:
                if any(irb.get_by_uuid(x.uuid) is y for y in na):
                    why = "IR B resolves %s to IR A's node" % _nm(x)
    return why, name


def twin(how: int, op: int, side: int) -> bool:
    """
    pre: 0 <= how < 3
    pre: 0 <= op < len(TWIN_OPS)
    pre: 0 <= side < 2
    post: __return__
    """
    h = pick(how, 3)
    o = pick(op, len(TWIN_OPS))
    sd = pick(side, 2)
    with untraced():
        why, name = run_twin(h, o, sd, SHARD["which"])
    if why is not None:
        return fail("twin IRs (how=%d) op=%s on side %d: %s" % (h, name, sd, why))
    count("scenarios")
    return done()


# ---------------------------------------------------------------------------
# argument aliasing / shared defaults (C04: separately constructed nodes never share state)
# ---------------------------------------------------------------------------
def _alias_cases():
    F = gtirb.Section.Flag
    A = gtirb.SymbolicExpression.Attribute
    sym = gtirb.Symbol("a", uuid=UUID(int=77))

    def sec(arg):
        return gtirb.Section(name="s", flags=arg) if arg is not None else gtirb.Section(name="s")

    def mod(arg):
        return gtirb.Module(name="m", aux_data=arg) if arg is not None else gtirb.Module(name="m")

    def irx(arg):
        return gtirb.IR(aux_data=arg) if arg is not None else gtirb.IR()

    def biv(arg):
        return gtirb.ByteInterval(size=4, symbolic_expressions=arg) if arg is not None else gtirb.ByteInterval(size=4)

    def sac(arg):
        return gtirb.SymAddrConst(0, sym, attributes=arg) if arg is not None else gtirb.SymAddrConst(0, sym)

    def saa(arg):
        return gtirb.SymAddrAddr(1, 0, sym, sym, attributes=arg) if arg is not None else gtirb.SymAddrAddr(1, 0, sym, sym)

    ad = lambda: gtirb.AuxData(1, "uint8_t")
    ex = lambda: gtirb.SymAddrConst(1, sym)
    return [
        # (name, constructor(arg), fresh argument object, attribute getter, mutate(container), snapshot(container))
        ("Section.flags", sec, lambda: {F.Readable}, lambda n: n.flags, lambda c: c.add(F.Writable), lambda c: frozenset(c)),
        ("Module.aux_data", mod, lambda: {"k": ad()}, lambda n: n.aux_data, lambda c: c.__setitem__("new", ad()), lambda c: tuple(sorted(c))),
        ("IR.aux_data", irx, lambda: {"k": ad()}, lambda n: n.aux_data, lambda c: c.__setitem__("new", ad()), lambda c: tuple(sorted(c))),
        ("ByteInterval.symbolic_expressions", biv, lambda: {0: ex()}, lambda n: n.symbolic_expressions, lambda c: c.__setitem__(2, ex()), lambda c: tuple(sorted(c))),
        ("SymAddrConst.attributes", sac, lambda: {A.GOT}, lambda n: n.attributes, lambda c: c.add(A.PLT), lambda c: frozenset(c)),
        ("SymAddrAddr.attributes", saa, lambda: {A.GOT}, lambda n: n.attributes, lambda c: c.add(A.PLT), lambda c: frozenset(c)),
    ]


def run_alias(case, use_default, target):
    name, ctor, mkarg, get, mutate, snap = _alias_cases()[case]
    arg = None if use_default else mkarg()
    n1 = ctor(arg)
    n2 = ctor(arg)
    conts = [get(n1), get(n2)] + ([arg] if arg is not None else [])
    if conts[0] is conts[1]:
        return "%s: two nodes hold the same container object" % name, name
    if arg is not None and (conts[0] is arg or conts[1] is arg):
        return "%s: a node holds the caller's argument object itself" % name, name
    before = [snap(c) for c in conts]
    t = target % len(conts)
    mutate(conts[t])
    for i, c in enumerate(conts):
        if i != t and snap(c) != before[i]:
            return "%s: mutating container %d changed container %d" % (name, t, i), name
    n3 = ctor(None)
    if use_default and len(get(n3)) != 0:
        return "%s: a node constructed with defaults afterwards is not empty (shared default)" % name, name
    return None, name


def _coll_alias(case, target):
    """the same list of children handed to two parents; defaults of collection arguments"""
    if case == 0:
        kids = [gtirb.Module(name="a", uuid=UUID(int=10)), gtirb.Module(name="b", uuid=UUID(int=11))]
        p1 = gtirb.IR(modules=kids, uuid=UUID(int=1))
        p2 = gtirb.IR(modules=kids, uuid=UUID(int=2))
        cols = [p1.modules, p2.modules]
        pool = [p1, p2] + kids
        irs = [p1, p2]
        extra = lambda: gtirb.Module(name="x", uuid=UUID(int=12))
        fresh = lambda: gtirb.IR().modules
    elif case == 1:
        kids = [gtirb.Section(name="a", uuid=UUID(int=10)), gtirb.Section(name="b", uuid=UUID(int=11))]
        ir = gtirb.IR(uuid=UUID(int=1))
        p1 = gtirb.Module(name="p1", sections=kids, uuid=UUID(int=2), ir=ir)
        p2 = gtirb.Module(name="p2", sections=kids, uuid=UUID(int=3), ir=ir)
        cols = [p1.sections, p2.sections]
        pool = [ir, p1, p2] + kids
        irs = [ir]
        extra = lambda: gtirb.Section(name="x", uuid=UUID(int=12))
        fresh = lambda: gtirb.Module(name="f").sections
    elif case == 2:
        kids = [gtirb.Symbol("a", uuid=UUID(int=10)), gtirb.ProxyBlock(uuid=UUID(int=11))]
        ir = gtirb.IR(uuid=UUID(int=1))
        p1 = gtirb.Module(name="p1", symbols=kids[:1], proxies=kids[1:], uuid=UUID(int=2), ir=ir)
        p2 = gtirb.Module(name="p2", symbols=kids[:1], proxies=kids[1:], uuid=UUID(int=3), ir=ir)
        cols = [p1.symbols, p2.symbols]
        pool = [ir, p1, p2] + kids
        irs = [ir]
        extra = lambda: gtirb.Symbol("x", uuid=UUID(int=12))
        fresh = lambda: gtirb.Module(name="f").symbols
    elif case == 3:
        kids = [gtirb.ByteInterval(size=1, uuid=UUID(int=10)), gtirb.ByteInterval(size=1, uuid=UUID(int=11))]
        p1 = gtirb.Section(name="p1", byte_intervals=kids, uuid=UUID(int=2))
        p2 = gtirb.Section(name="p2", byte_intervals=kids, uuid=UUID(int=3))
        cols = [p1.byte_intervals, p2.byte_intervals]
        pool = [p1, p2] + kids
        irs = []
        extra = lambda: gtirb.ByteInterval(size=1, uuid=UUID(int=12))
        fresh = lambda: gtirb.Section(name="f").byte_intervals
    else:
        kids = [gtirb.CodeBlock(size=1, uuid=UUID(int=10)), gtirb.DataBlock(size=1, uuid=UUID(int=11))]
        p1 = gtirb.ByteInterval(size=4, blocks=kids, uuid=UUID(int=2))
        p2 = gtirb.ByteInterval(size=4, blocks=kids, uuid=UUID(int=3))
        cols = [p1.blocks, p2.blocks]
        pool = [p1, p2] + kids
        irs = []
        extra = lambda: gtirb.DataBlock(size=1, uuid=UUID(int=12))
        fresh = lambda: gtirb.ByteInterval(size=1).blocks
    name = "children= case %d" % case
    if len(kids) != 2:
        return "the caller's list was modified", name
    if list(cols[0]) != [] or not all(any(k is x for x in cols[1]) for k in (kids if case != 2 else kids[:1])):
        return "children handed to a second parent were not moved to it", name
    x = extra()
    if target == 0:
        if case == 0:
            cols[0].append(x)
        else:
            cols[0].add(x)
        if any(x is y for y in cols[1]):
            return "adding to one parent's collection shows in the other's", name
    else:
        kids.append(x)
        if any(x is y for y in cols[0]) or any(x is y for y in cols[1]):
            return "mutating the caller's list shows in a node's collection", name
    pool.append(x)
    if len(fresh()) != 0:
        return "a node constructed with default children is not empty (shared default)", name
    why = check_forest(pool)
    if why is None and irs:
        why = check_cache(pool, irs)
    return why, name


def alias(case: int, dflt: int, target: int) -> bool:
    """
    pre: 0 <= case < 11
    pre: 0 <= dflt < 2
    pre: 0 <= target < 3
    post: __return__
    """
    c = pick(case, 11)
    d = pick(dflt, 2)
    t = pick(target, 3)
    with untraced():
        if c < 6:
            why, name = run_alias(c, d == 1, t)
        else:
            why, name = _coll_alias(c - 6, t % 2)
    if why is not None:
        return fail("aliasing: %s" % why)
    count("scenarios")
    return done()


def _cross_world():
    U = lambda k: UUID(int=900 + k)  # noqa: E731
    ir0, ir1 = gtirb.IR(uuid=U(0)), gtirb.IR(uuid=U(1))
    m0 = gtirb.Module(name="m0", uuid=U(2), ir=ir0)
    m1 = gtirb.Module(name="m1", uuid=U(3), ir=ir1)
    s0 = gtirb.Section(name="s0", uuid=U(4), module=m0)
    s1 = gtirb.Section(name="s1", uuid=U(5), module=m0)
    s2 = gtirb.Section(name="s2", uuid=U(6), module=m1)
    s3 = gtirb.Section(name="s3", uuid=U(7))
    bi0 = gtirb.ByteInterval(size=8, uuid=U(8), section=s0)
    bi1 = gtirb.ByteInterval(size=8, uuid=U(9))
    b0 = gtirb.CodeBlock(size=1, uuid=U(10), byte_interval=bi0)
    b1 = gtirb.DataBlock(size=1, uuid=U(11), byte_interval=bi1)
    nb = gtirb.CodeBlock(size=1, uuid=U(12))
    nbi = gtirb.ByteInterval(size=1, uuid=U(13))
    sym = gtirb.Symbol("y", uuid=U(14))
    d = dict(ir0=ir0, ir1=ir1, m0=m0, m1=m1, s0=s0, s1=s1, s2=s2, s3=s3, bi0=bi0, bi1=bi1, b0=b0, b1=b1, nb=nb, nbi=nbi, sym=sym)
    return d


# first operation: moves (or re-adds) a node that has a subtree below it, at every level, from the parent's and from the child's side
CROSS_FIRST = [
    ("s1.byte_intervals.add(bi0)", lambda d: d["s1"].byte_intervals.add(d["bi0"])),
    ("s2.byte_intervals.add(bi0)", lambda d: d["s2"].byte_intervals.add(d["bi0"])),
    ("s3.byte_intervals.add(bi0)", lambda d: d["s3"].byte_intervals.add(d["bi0"])),
    ("s0.byte_intervals.add(bi0)", lambda d: d["s0"].byte_intervals.add(d["bi0"])),
    ("bi0.section=s1", lambda d: setattr(d["bi0"], "section", d["s1"])),
    ("bi0.section=s2", lambda d: setattr(d["bi0"], "section", d["s2"])),
    ("bi0.section=s0", lambda d: setattr(d["bi0"], "section", d["s0"])),
    ("bi0.section=None", lambda d: setattr(d["bi0"], "section", None)),
    ("s1.byte_intervals|={bi0}", lambda d: _ior(d["s1"].byte_intervals, {d["bi0"]})),
    ("s0.byte_intervals.update([bi0,bi1])", lambda d: d["s0"].byte_intervals.update([d["bi0"], d["bi1"]])),
    ("bi1.section=s0", lambda d: setattr(d["bi1"], "section", d["s0"])),
    ("m1.sections.add(s0)", lambda d: d["m1"].sections.add(d["s0"])),
    ("m0.sections.add(s0)", lambda d: d["m0"].sections.add(d["s0"])),
    ("s0.module=m1", lambda d: setattr(d["s0"], "module", d["m1"])),
    ("s0.module=None", lambda d: setattr(d["s0"], "module", None)),
    ("s3.module=m0", lambda d: setattr(d["s3"], "module", d["m0"])),
    ("ir1.modules.append(m0)", lambda d: d["ir1"].modules.append(d["m0"])),
    ("m0.ir=ir1", lambda d: setattr(d["m0"], "ir", d["ir1"])),
    ("m0.ir=None", lambda d: setattr(d["m0"], "ir", None)),
    ("b0.byte_interval=bi1", lambda d: setattr(d["b0"], "byte_interval", d["bi1"])),
    ("bi1.blocks.add(b0)", lambda d: d["bi1"].blocks.add(d["b0"])),
    ("bi0.blocks.add(b0)", lambda d: d["bi0"].blocks.add(d["b0"])),
]
# later operations: attach / detach BELOW (or at) the node that was moved
CROSS_NEXT = [
    ("bi0.blocks.add(nb)", lambda d: d["bi0"].blocks.add(d["nb"])),
    ("nb.byte_interval=bi0", lambda d: setattr(d["nb"], "byte_interval", d["bi0"])),
    ("bi0.blocks.discard(b0)", lambda d: d["bi0"].blocks.discard(d["b0"])),
    ("b0.byte_interval=None", lambda d: setattr(d["b0"], "byte_interval", None)),
    ("b0.byte_interval=bi1", lambda d: setattr(d["b0"], "byte_interval", d["bi1"])),
    ("b0.byte_interval=bi0", lambda d: setattr(d["b0"], "byte_interval", d["bi0"])),
    ("bi0.blocks.clear()", lambda d: d["bi0"].blocks.clear()),
    ("bi1.blocks.add(nb)", lambda d: d["bi1"].blocks.add(d["nb"])),
    ("s0.byte_intervals.add(nbi)", lambda d: d["s0"].byte_intervals.add(d["nbi"])),
    ("nbi.section=s0", lambda d: setattr(d["nbi"], "section", d["s0"])),
    ("bi0.section=None", lambda d: setattr(d["bi0"], "section", None)),
    ("bi0.section=s3", lambda d: setattr(d["bi0"], "section", d["s3"])),
    ("bi0.section=s0", lambda d: setattr(d["bi0"], "section", d["s0"])),
    ("s0.byte_intervals.discard(bi0)", lambda d: d["s0"].byte_intervals.discard(d["bi0"])),
    ("s1.byte_intervals.discard(bi0)", lambda d: d["s1"].byte_intervals.discard(d["bi0"])),
    ("s0.module=None", lambda d: setattr(d["s0"], "module", None)),
    ("s0.module=m0", lambda d: setattr(d["s0"], "module", d["m0"])),
    ("m0.symbols.add(sym)", lambda d: d["m0"].symbols.add(d["sym"])),
    ("m0.ir=None", lambda d: setattr(d["m0"], "ir", None)),
    ("m0.ir=ir0", lambda d: setattr(d["m0"], "ir", d["ir0"])),
]


def run_cross(seq, which):
    d = _cross_world()
    pool = list(d.values())
    irs = [d["ir0"], d["ir1"]]
    names = []
    for k, i in enumerate(seq):
        name, f = (CROSS_FIRST if k == 0 else CROSS_NEXT)[i]
        names.append(name)
        try:
            f(d)
        except Exception as e:  # noqa: BLE001
            return "undeclared %s in %s" % (type(e).__name__, name), names
        why = check_cache(pool, irs) if which == "C03" else check_forest(pool)
        if why is None and which != "C03":
            why = check_cache(pool, irs)
        if why:
            return "after %s: %s" % (" ; ".join(names), why), names
    return None, names


def cross(o1: int, o2: int, o3: int) -> bool:
    """
    pre: 0 <= o1 < len(CROSS_FIRST) and 0 <= o2 < len(CROSS_NEXT) and 0 <= o3 < len(CROSS_NEXT)
    post: __return__
    """
    # operations on DIFFERENT relations in sequence: a subtree is moved, then nodes are attached / detached below it
    a = pick(o1, len(CROSS_FIRST))
    b = pick(o2, len(CROSS_NEXT))
    seq = [a, b]
    if SHARD["k"] == 3:
        seq.append(pick(o3, len(CROSS_NEXT)))
    with untraced():
        why, names = run_cross(seq, SHARD["which"])
    if why is not None:
        return fail(why)
    count("scenarios")
    return done()


def extra_shards(which, tier):
    out = [{"fn": "twin", "consts": {"which": which}, "timeout": 600}]
    if tier == "quick":
        # K = 2 on the module list: an operation that (re)inserts or assigns modules, then any operation
        w = build("ir_mod", (0, 0, 0, 0))
        names = [n for n, _f, _e in list_ops(w)]
        ins = [i for i, n in enumerate(names) if n.startswith(("append", "insert", "extend", "+="))]
        for lo in range(0, len(ins), 6):
            fo = ins[lo:lo + 6]
            out.append({"fn": "step2", "consts": {"rel": "ir_mod", "which": which, "third": 0, "shape": [1, 1], "first_ops": fo, "op_lo": 0, "nops1": len(fo), "nops": len(names)},
                        "timeout": 1200, "twin": False, "cover": False})
        # K = 2 on the set relations: a parent-side insertion (add / |= / update / ^=: the operations that MOVE a child that has a parent), then any operation
        for rel in RELS:
            if rel == "ir_mod":
                continue
            w = build(rel, (0, 0, 0, 0))
            names = [n for n, _f, _e in set_ops(w) + ctor_ops(w)]
            ins = [i for i, n in enumerate(names) if (".add(" in n or "|=" in n or ".update(" in n or "^=" in n)]
            for lo in range(0, len(ins), 4):
                fo = ins[lo:lo + 4]
                out.append({"fn": "step2", "consts": {"rel": rel, "which": which, "third": 0, "first_ops": fo, "op_lo": 0, "nops1": len(fo), "nops": len(names)},
                            "timeout": 1200, "twin": False, "cover": False})
    if tier != "quick":
        # K = 2: every ordered pair of operations from the pre-states with both candidate parents attached to different IRs
        for rel in RELS:
            n = n_ops(rel)
            chunk = 4 if rel != "ir_mod" else 6
            thirds = (0, 1, 2) if rel == "ir_mod" else (0,)
            for third in thirds:
                for lo in range(0, n, chunk):
                    out.append({"fn": "step2", "consts": {"rel": rel, "which": which, "third": third, "op_lo": lo, "nops1": min(chunk, n - lo), "nops": n},
                                "timeout": 2400, "twin": "first", "cover": False})
    out.append({"fn": "cross", "consts": {"which": which, "k": 2 if tier == "quick" else 3}, "timeout": 1800, "twin": False, "cover": False})
    if which == "C04":
        out.append({"fn": "alias", "consts": {}, "timeout": 600})
    return out
