"""Harness functions for the lookup properties C05, C06, C12, C13 (DESIGN 4).

Oracle (no gtirb code): a fresh linear scan of a plain model kept by the harness.
  on(range)  : size != 0 and max(addr, start) < min(addr + size, stop)      (hull of the range, DESIGN 7)
  at(range)  : start <= addr < stop and (addr - start) % step == 0
  address queries return nothing for an interval without address
At section / module / IR scope a block (part) outside its interval's declared extent may go
either way:  must <= got <= may.

Histories: a shard fixes the edit kinds (`ops`), where index-materialising lookups are placed
(`sched` bit i = lookup before edit i) and the number of ballast members; every value is symbolic.
Ballast members are zero-sized nodes at 2**64-1 with all query bounds < 2**64-1, so that the
incremental-replay branch of LazyIntervalTree.get (taken only when members > pending events) is
exercised without forking on them.
"""
from typing import Optional
from uuid import UUID

from hbase import SHARD, count, done, fail, pick, untraced, U64

import gtirb
import gtirb.lazyintervaltree as _lit

TOP = U64 - 1

# observe which branch of LazyIntervalTree.get is taken (evidence only)
_orig_get = _lit.LazyIntervalTree.get


def _observed_get(self):
    if self._interval_index is None:
        count("index_first_build")
    elif len(self._value_collection) <= len(self._interval_events):
        count("index_rebuild")
    else:
        count("index_replay_%d_events" % len(self._interval_events))
    return _orig_get(self)


_lit.LazyIntervalTree.get = _observed_get


def _v(x):
    return 0 <= x < TOP


def _optv(x):
    return x is None or 0 <= x < TOP


def _step(x):
    return 1 <= x < U64


def _same(got, exp):
    """identity-wise equality of two lists as multisets, exp has no repetition"""
    if len(got) != len(exp):
        return False
    for e in exp:
        if not any(g is e for g in got):
            return False
    return True


def _opt_eq(x, y):
    return (x is None and y is None) or (x is not None and y is not None and x == y)


def _between(got, must, may):
    """must <= got <= may, no repetition in got"""
    for i in range(len(got)):
        for j in range(i):
            if got[i] is got[j]:
                return False
    for e in must:
        if not any(g is e for g in got):
            return False
    for g in got:
        if not any(g is e for e in may):
            return False
    return True


def _query():
    return SHARD.get("q", "range")


def _mkq(start, stop, step):
    q = _query()
    if q == "point":
        return start, start, start + 1, 1
    if q == "range":
        return range(start, stop), start, stop, 1
    if q == "stepk":
        st = SHARD["st"]
        return range(start, stop, st), start, stop, st
    if q == "stepc":
        # step decoded to a concrete representative per path (1, 2, 3 or 5): keeps (a - start) % step linear
        st = (1, 2, 3, 5)[pick(step - 1, 4)]
        return range(start, stop, st), start, stop, st
    return range(start, stop, step), start, stop, step


def _at(a, lo, hi, st):
    return lo <= a < hi and (a - lo) % st == 0


def _on(a, z, lo, hi):
    return z != 0 and max(a, lo) < min(a + z, hi)


def _touch(bi):
    """materialise the block index without forking: an empty offset range"""
    for _ in bi.byte_blocks_on_offset(range(0, 0)):
        pass


# ---------------------------------------------------------------------------
# C05 interval scope: two symbolic blocks, no history (all query shapes)
# ---------------------------------------------------------------------------
def blk_two(ia: Optional[int], o1: int, z1: int, o2: int, z2: int, start: int, stop: int, step: int) -> bool:
    """
    pre: _optv(ia) and _v(o1) and _v(z1) and _v(o2) and _v(z2)
    pre: _v(start) and _v(stop) and _step(step)
    post: __return__
    """
    view = SHARD["view"]
    if SHARD.get("addr") == "none":
        ia = None
    bi = gtirb.ByteInterval(address=ia, size=10, uuid=UUID(int=4))
    b1 = gtirb.CodeBlock(offset=o1, size=z1, byte_interval=bi, uuid=UUID(int=5))
    b2 = gtirb.DataBlock(offset=o2, size=z2, byte_interval=bi, uuid=UUID(int=6))
    q, lo, hi, st = _mkq(start, stop, step)
    blocks = [(b1, o1, z1), (b2, o2, z2)]
    if view == "offset":
        on = list(bi.byte_blocks_on_offset(q))
        at = list(bi.byte_blocks_at_offset(q))
        exp_on = [b for (b, o, z) in blocks if _on(o, z, lo, hi)]
        exp_at = [b for (b, o, z) in blocks if _at(o, lo, hi, st)]
        con, dat = list(bi.code_blocks_on_offset(q)), list(bi.data_blocks_at_offset(q))
        dan, cat = list(bi.data_blocks_on_offset(q)), list(bi.code_blocks_at_offset(q))
    else:
        on = list(bi.byte_blocks_on(q))
        at = list(bi.byte_blocks_at(q))
        if ia is None:
            exp_on, exp_at = [], []
        else:
            exp_on = [b for (b, o, z) in blocks if _on(ia + o, z, lo, hi)]
            exp_at = [b for (b, o, z) in blocks if _at(ia + o, lo, hi, st)]
        con, dat = list(bi.code_blocks_on(q)), list(bi.data_blocks_at(q))
        dan, cat = list(bi.data_blocks_on(q)), list(bi.code_blocks_at(q))
    if not _same(on, exp_on):
        return fail("byte_blocks_on (%s)" % view)
    if not _same(at, exp_at):
        return fail("byte_blocks_at (%s)" % view)
    if not _same(con, [b for b in exp_on if b is b1]) or not _same(dan, [b for b in exp_on if b is b2]):
        return fail("code/data_blocks_on (%s)" % view)
    if not _same(cat, [b for b in exp_at if b is b1]) or not _same(dat, [b for b in exp_at if b is b2]):
        return fail("code/data_blocks_at (%s)" % view)
    return done()


# ---------------------------------------------------------------------------
# C05 / C12 interval scope: edit histories with lookups in between
# ---------------------------------------------------------------------------
def _run_blk_history(ia, o1, z1, vals, sched, ops, nb, with_b2):
    """Build the structure, replay the history with the given lookup schedule; return (objects, model)."""
    with untraced():
        bi = gtirb.ByteInterval(address=None, size=SHARD.get("isize", 10), uuid=UUID(int=4))
        bj = gtirb.ByteInterval(address=0x100, size=10, uuid=UUID(int=40))
        ballast = [gtirb.DataBlock(offset=TOP, size=0, byte_interval=bi, uuid=UUID(int=100 + i)) for i in range(nb)]
        b2 = gtirb.DataBlock(offset=3, size=2, byte_interval=bi, uuid=UUID(int=6)) if with_b2 else None
        extras = [gtirb.DataBlock(offset=5, size=2, uuid=UUID(int=200 + i)) for i in range(3)]
    added = []
    bi.address = ia
    b1 = gtirb.CodeBlock(offset=o1, size=z1, byte_interval=bi, uuid=UUID(int=5))
    # model: b1 = [interval index or None, offset, size]; interval addresses
    m_b1 = [0, o1, z1]
    m_addr = [ia, 0x100]
    for k, op in enumerate(ops):
        if (sched >> k) & 1:
            _touch(bi)
            _touch(bj)
        v = vals[k % len(vals)]
        if op == "o":
            b1.offset = v
            m_b1[1] = v
        elif op == "z":
            b1.size = v
            m_b1[2] = v
        elif op == "r":
            bi.blocks.discard(b1)
            if m_b1[0] == 0:
                m_b1[0] = None
        elif op == "a":
            bi.blocks.add(b1)
            m_b1[0] = 0
        elif op == "m":
            b1.byte_interval = bj
            m_b1[0] = 1
        elif op == "A":
            bi.address = v
            m_addr[0] = v
        elif op == "N":
            bi.address = None
            m_addr[0] = None
        elif op == "u":
            # the collection grows in one bulk call (three ordinary blocks, all at offset 5, size 2: one case split for the three)
            bi.blocks.update(extras)
            added[:] = extras
        else:
            raise AssertionError(op)
    if (sched >> len(ops)) & 1:
        _touch(bi)
        _touch(bj)
    return (bi, bj, b1, b2, ballast, list(added)), (m_b1, m_addr)


def _final_answers(objs, q, with_j):
    bi, bj, b1, b2, ballast, added = objs
    out = [list(bi.byte_blocks_on_offset(q)), list(bi.byte_blocks_at_offset(q)),
           list(bi.byte_blocks_on(q)), list(bi.byte_blocks_at(q))]
    if with_j:
        out += [list(bj.byte_blocks_on_offset(q)), list(bj.byte_blocks_at_offset(q)),
                list(bj.byte_blocks_on(q)), list(bj.byte_blocks_at(q))]
    return out


def _expected(objs, model, lo, hi, st, with_j):
    bi, bj, b1, b2, ballast, added = objs
    m_b1, m_addr = model
    exp = []
    for idx in ((0, 1) if with_j else (0,)):
        members = []
        if m_b1[0] == idx:
            members.append((b1, m_b1[1], m_b1[2]))
        if idx == 0 and b2 is not None:
            members.append((b2, 3, 2))
        if idx == 0:
            for k, x in enumerate(added):
                members.append((x, 5, 2))
        # ballast: zero-sized at TOP, all query bounds < TOP: never 'on', never 'at'
        exp.append([b for (b, o, z) in members if _on(o, z, lo, hi)])
        exp.append([b for (b, o, z) in members if _at(o, lo, hi, st)])
        a = m_addr[idx]
        if a is None:
            exp.append([])
            exp.append([])
        else:
            exp.append([b for (b, o, z) in members if _on(a + o, z, lo, hi)])
            exp.append([b for (b, o, z) in members if _at(a + o, lo, hi, st)])
    return exp


_NAMES = ["bi.on_offset", "bi.at_offset", "bi.on", "bi.at", "bj.on_offset", "bj.at_offset", "bj.on", "bj.at"]


def blk_hist(ia: Optional[int], o1: int, z1: int, v0: int, v1: int, v2: int, start: int, stop: int) -> bool:
    """
    pre: _optv(ia) and _v(o1) and _v(z1) and _v(v0) and _v(v1) and _v(v2)
    pre: _v(start) and _v(stop)
    post: __return__
    """
    if SHARD.get("addr") == "fixed":
        ia = 0x1000
    objs, model = _run_blk_history(ia, o1, z1, [v0, v1, v2], SHARD["sched"], SHARD["ops"], SHARD["nb"], SHARD.get("b2", 0))
    q = range(start, stop)
    with_j = "m" in SHARD["ops"]
    got = _final_answers(objs, q, with_j)
    exp = _expected(objs, model, start, stop, 1, with_j)
    for i in range(len(got)):
        if not _same(got[i], exp[i]):
            return fail("%s after ops=%s sched=%s" % (_NAMES[i], SHARD["ops"], SHARD["sched"]))
    return done()


def blk_sched(ia: Optional[int], o1: int, z1: int, v0: int, v1: int, v2: int, start: int, stop: int) -> bool:
    """
    pre: _optv(ia) and _v(o1) and _v(z1) and _v(v0) and _v(v1) and _v(v2)
    pre: _v(start) and _v(stop)
    post: __return__
    """
    # C12: the same history with lookups placed per `sched` and with none at all gives identical final answers
    if SHARD.get("addr") == "fixed":
        ia = 0x1000
    q = range(start, stop)
    objs_a, _ = _run_blk_history(ia, o1, z1, [v0, v1, v2], SHARD["sched"], SHARD["ops"], SHARD["nb"], SHARD.get("b2", 0))
    objs_b, _ = _run_blk_history(ia, o1, z1, [v0, v1, v2], 0, SHARD["ops"], SHARD["nb"], SHARD.get("b2", 0))
    with_j = "m" in SHARD["ops"]
    ga = _final_answers(objs_a, q, with_j)
    gb = _final_answers(objs_b, q, with_j)
    # correspondence between the two copies: by UUID
    for i in range(len(ga)):
        ua = sorted(b.uuid.int for b in ga[i])
        ub = sorted(b.uuid.int for b in gb[i])
        if ua != ub:
            return fail("%s differs between schedule %s and no lookups (ops=%s)" % (_NAMES[i], SHARD["sched"], SHARD["ops"]))
    return done()


# ---------------------------------------------------------------------------
# C05 higher scopes: section / module / IR with the must/may oracle
# ---------------------------------------------------------------------------
def blk_scope(ia: Optional[int], isz: int, off: int, bsz: int, start: int, stop: int, step: int) -> bool:
    """
    pre: _optv(ia) and _v(isz) and _v(off) and _v(bsz)
    pre: _v(start) and _v(stop) and _step(step)
    post: __return__
    """
    ir = gtirb.IR(uuid=UUID(int=1))
    m = gtirb.Module(name="m", ir=ir, uuid=UUID(int=2))
    s = gtirb.Section(name="s", module=m, uuid=UUID(int=3))
    bi = gtirb.ByteInterval(address=ia, size=isz, section=s, uuid=UUID(int=4))
    kind = SHARD.get("kind", "code")
    if kind == "code":
        b = gtirb.CodeBlock(offset=off, size=bsz, byte_interval=bi, uuid=UUID(int=5))
    else:
        b = gtirb.DataBlock(offset=off, size=bsz, byte_interval=bi, uuid=UUID(int=5))
    # a second interval without address, holding a block: never returned by address queries
    bn = gtirb.ByteInterval(address=None, size=4, section=s, uuid=UUID(int=7))
    gtirb.DataBlock(offset=0, size=4, byte_interval=bn, uuid=UUID(int=8))
    q, lo, hi, st = _mkq(start, stop, step)
    scope = {"section": s, "module": m, "ir": ir}[SHARD["scope"]]
    on = list(scope.byte_blocks_on(q))
    at = list(scope.byte_blocks_at(q))
    same_on = list(scope.code_blocks_on(q)) if kind == "code" else list(scope.data_blocks_on(q))
    other_on = list(scope.data_blocks_on(q)) if kind == "code" else list(scope.code_blocks_on(q))
    same_at = list(scope.code_blocks_at(q)) if kind == "code" else list(scope.data_blocks_at(q))
    other_at = list(scope.data_blocks_at(q)) if kind == "code" else list(scope.code_blocks_at(q))
    if ia is None:
        if on or at or same_on or same_at or other_on or other_at:
            return fail("block of an interval without address returned by an address query")
        return done()
    a = ia + off
    may_on = _on(a, bsz, lo, hi)
    must_on = bsz != 0 and max(a, lo, ia) < min(a + bsz, hi, ia + isz)
    may_at = _at(a, lo, hi, st)
    must_at = may_at and off < isz
    for (name, got, must, may) in (("on", on, must_on, may_on), ("at", at, must_at, may_at),
                                   ("kind_on", same_on, must_on, may_on), ("kind_at", same_at, must_at, may_at)):
        if not _between(got, [b] if must else [], [b] if may else []):
            return fail("%s.byte_blocks_%s" % (SHARD["scope"], name))
    if other_on or other_at:
        return fail("block of the other kind returned")
    return done()


def blk_scope2(a1: int, s1: int, a2: int, s2: int, start: int, stop: int) -> bool:
    """
    pre: _v(a1) and _v(s1) and _v(a2) and _v(s2)
    pre: _v(start) and _v(stop)
    post: __return__
    """
    # two intervals (sharing addresses, overlapping, ...) in one or two sections / modules; one in-extent block each
    ir = gtirb.IR(uuid=UUID(int=1))
    m1 = gtirb.Module(name="m1", ir=ir, uuid=UUID(int=2))
    m2 = gtirb.Module(name="m2", ir=ir, uuid=UUID(int=12))
    sa = gtirb.Section(name="a", module=m1, uuid=UUID(int=3))
    lay = SHARD["layout"]        # 0: same section, 1: two sections of one module, 2: two modules
    sb = sa if lay == 0 else gtirb.Section(name="b", module=(m1 if lay == 1 else m2), uuid=UUID(int=13))
    i1 = gtirb.ByteInterval(address=a1, size=s1, section=sa, uuid=UUID(int=4))
    i2 = gtirb.ByteInterval(address=a2, size=s2, section=sb, uuid=UUID(int=14))
    # blocks cover their whole interval: in-extent by construction when the interval is non-empty
    b1 = gtirb.CodeBlock(offset=0, size=s1, byte_interval=i1, uuid=UUID(int=5))
    b2 = gtirb.DataBlock(offset=0, size=s2, byte_interval=i2, uuid=UUID(int=15))
    q = range(start, stop)
    scope = {"section": sa, "module": m1, "ir": ir}[SHARD["scope"]]
    visible2 = (SHARD["scope"] == "ir") or (SHARD["scope"] == "module" and lay <= 1) or (SHARD["scope"] == "section" and lay == 0)
    on = list(scope.byte_blocks_on(q))
    at = list(scope.byte_blocks_at(q))
    must_on, may_at, must_at = [], [], []
    for (b, a, z, vis) in ((b1, a1, s1, True), (b2, a2, s2, visible2)):
        if not vis:
            continue
        if _on(a, z, start, stop):
            must_on.append(b)            # whole block inside the extent: must == may
        if _at(a, start, stop, 1):
            may_at.append(b)
            if z != 0:
                must_at.append(b)        # offset 0 < size
    if not _same(on, must_on):
        return fail("%s.byte_blocks_on with two intervals (layout %d)" % (SHARD["scope"], lay))
    if not _between(at, must_at, may_at):
        return fail("%s.byte_blocks_at with two intervals (layout %d)" % (SHARD["scope"], lay))
    return done()


# ---------------------------------------------------------------------------
# C06: interval / section lookups and section extents
# ---------------------------------------------------------------------------
def _sec_expect(members, lo, hi, st):
    """members: list of (interval, addr or None, size)"""
    exp_on = [i for (i, a, z) in members if a is not None and _on(a, z, lo, hi)]
    exp_at = [i for (i, a, z) in members if a is not None and _at(a, lo, hi, st)]
    return exp_on, exp_at


def _extent(members):
    if not members:
        return None, None
    lo = None
    hi = None
    for (_i, a, z) in members:
        if a is None:
            return None, None
        if lo is None or a < lo:
            lo = a
        if hi is None or a + z > hi:
            hi = a + z
    return lo, hi - lo


def sec_two(a1: int, s1: int, a2: int, s2: int, start: int, stop: int, step: int) -> bool:
    """
    pre: _v(a1) and _v(s1) and _v(a2) and _v(s2)
    pre: _v(start) and _v(stop) and _step(step)
    post: __return__
    """
    # which of the two intervals has an address is a shard constant (4 combinations), so is the scope
    if SHARD["none1"]:
        a1 = None
    if SHARD["none2"]:
        a2 = None
    with untraced():
        ir = gtirb.IR(uuid=UUID(int=1))
        m = gtirb.Module(name="m", ir=ir, uuid=UUID(int=2))
        s = gtirb.Section(name="s", module=m, uuid=UUID(int=3))
        e = gtirb.Section(name="empty", module=m, uuid=UUID(int=9))
    i1 = gtirb.ByteInterval(address=a1, size=s1, section=s, uuid=UUID(int=4))
    i2 = gtirb.ByteInterval(address=a2, size=s2, section=s, uuid=UUID(int=5))
    members = [(i1, a1, s1), (i2, a2, s2)]
    q, lo, hi, st = _mkq(start, stop, step)
    ea, ez = _extent(members)
    scope_name = SHARD["scope"]
    scope = {"section": s, "module": m, "ir": ir}[scope_name]
    exp_on, exp_at = _sec_expect(members, lo, hi, st)
    if not _same(list(scope.byte_intervals_on(q)), exp_on):
        return fail("%s.byte_intervals_on" % scope_name)
    if not _same(list(scope.byte_intervals_at(q)), exp_at):
        return fail("%s.byte_intervals_at" % scope_name)
    if scope_name == "section":
        if not _opt_eq(s.address, ea):
            return fail("Section.address")
        if not _opt_eq(s.size, ez):
            return fail("Section.size")
        if e.address is not None or e.size is not None:
            return fail("empty section has an extent")
    else:
        secs_on = [s] if (ea is not None and _on(ea, ez, lo, hi)) else []
        secs_at = [s] if (ea is not None and _at(ea, lo, hi, st)) else []
        if not _same(list(scope.sections_on(q)), secs_on):
            return fail("%s.sections_on" % scope_name)
        if not _same(list(scope.sections_at(q)), secs_at):
            return fail("%s.sections_at" % scope_name)
    return done()


def _run_sec_history(a1, s1, vals, sched, ops, nb):
    with untraced():
        ir = gtirb.IR(uuid=UUID(int=1))
        m = gtirb.Module(name="m", ir=ir, uuid=UUID(int=2))
        s = gtirb.Section(name="s", module=m, uuid=UUID(int=3))
        t = gtirb.Section(name="t", module=m, uuid=UUID(int=13))
        ballast = [gtirb.ByteInterval(address=TOP, size=0, section=s, uuid=UUID(int=100 + i)) for i in range(nb)]
        it = gtirb.ByteInterval(address=TOP, size=0, section=t, uuid=UUID(int=14))
        noaddr = [gtirb.ByteInterval(address=None, size=3, uuid=UUID(int=300 + i)) for i in range(2)]
    grown = []
    i1 = gtirb.ByteInterval(address=a1, size=s1, section=s, uuid=UUID(int=4))
    m_i1 = [0, a1, s1]           # section index (0 = s, 1 = t, None), address, size
    for k, op in enumerate(ops):
        if (sched >> k) & 1:
            s.address
            t.address
        v = vals[k % len(vals)]
        if op == "A":
            i1.address = v
            m_i1[1] = v
        elif op == "N":
            i1.address = None
            m_i1[1] = None
        elif op == "Z":
            i1.size = v
            m_i1[2] = v
        elif op == "r":
            s.byte_intervals.discard(i1)
            if m_i1[0] == 0:
                m_i1[0] = None
        elif op == "a":
            s.byte_intervals.add(i1)
            m_i1[0] = 0
        elif op == "m":
            i1.section = t
            m_i1[0] = 1
        elif op == "u":
            # two address-less intervals join the section: the collection grows without any index event
            s.byte_intervals.update(noaddr)
            grown[:] = noaddr
        elif op == "d":
            # ... and leave again
            for x in noaddr:
                s.byte_intervals.discard(x)
            grown[:] = []
        else:
            raise AssertionError(op)
    if (sched >> len(ops)) & 1:
        s.address
        t.address
    return (ir, m, s, t, i1, it, ballast + list(grown)), m_i1


def _sec_answers(objs, q, with_t):
    ir, m, s, t, i1, it, ballast = objs
    out = [list(s.byte_intervals_on(q)), list(s.byte_intervals_at(q)), [s.address, s.size]]
    if with_t:
        out += [list(t.byte_intervals_on(q)), list(t.byte_intervals_at(q)), [t.address, t.size]]
    return out


_SNAMES = ["s.byte_intervals_on", "s.byte_intervals_at", "s extent", "t.byte_intervals_on", "t.byte_intervals_at", "t extent"]


def sec_hist(a1: Optional[int], s1: int, v0: int, v1: int, v2: int, start: int, stop: int) -> bool:
    """
    pre: _optv(a1) and _v(s1) and _v(v0) and _v(v1) and _v(v2)
    pre: _v(start) and _v(stop)
    post: __return__
    """
    with_t = "m" in SHARD["ops"]
    objs, m_i1 = _run_sec_history(a1, s1, [v0, v1, v2], SHARD["sched"], SHARD["ops"], SHARD["nb"])
    ir, m, s, t, i1, it, ballast = objs
    q = range(start, stop)
    got = _sec_answers(objs, q, with_t)
    mem_s = [(b, (TOP if b.uuid.int < 300 else None), (0 if b.uuid.int < 300 else 3)) for b in ballast]
    mem_t = [(it, TOP, 0)]
    if m_i1[0] == 0:
        mem_s = [(i1, m_i1[1], m_i1[2])] + mem_s
    elif m_i1[0] == 1:
        mem_t = [(i1, m_i1[1], m_i1[2])] + mem_t
    exp = []
    for mem in ((mem_s, mem_t) if with_t else (mem_s,)):
        on, at = _sec_expect(mem, start, stop, 1)
        exp.append(on)
        exp.append(at)
        exp.append(list(_extent(mem)))
    for i in range(len(exp)):
        if i % 3 == 2:
            if not (_opt_eq(got[i][0], exp[i][0]) and _opt_eq(got[i][1], exp[i][1])):
                return fail("%s after ops=%s sched=%s" % (_SNAMES[i], SHARD["ops"], SHARD["sched"]))
        elif not _same(got[i], exp[i]):
            return fail("%s after ops=%s sched=%s" % (_SNAMES[i], SHARD["ops"], SHARD["sched"]))
    return done()


def sec_sched(a1: Optional[int], s1: int, v0: int, v1: int, v2: int, start: int, stop: int) -> bool:
    """
    pre: _optv(a1) and _v(s1) and _v(v0) and _v(v1) and _v(v2)
    pre: _v(start) and _v(stop)
    post: __return__
    """
    with_t = "m" in SHARD["ops"]
    q = range(start, stop)
    oa, _ = _run_sec_history(a1, s1, [v0, v1, v2], SHARD["sched"], SHARD["ops"], SHARD["nb"])
    ob, _ = _run_sec_history(a1, s1, [v0, v1, v2], 0, SHARD["ops"], SHARD["nb"])
    ga = _sec_answers(oa, q, with_t)
    gb = _sec_answers(ob, q, with_t)
    for i in range(len(ga)):
        if i % 3 == 2:
            if not (_opt_eq(ga[i][0], gb[i][0]) and _opt_eq(ga[i][1], gb[i][1])):
                return fail("%s differs between schedule %s and no lookups (ops=%s)" % (_SNAMES[i], SHARD["sched"], SHARD["ops"]))
        elif sorted(x.uuid.int for x in ga[i]) != sorted(x.uuid.int for x in gb[i]):
            return fail("%s differs between schedule %s and no lookups (ops=%s)" % (_SNAMES[i], SHARD["sched"], SHARD["ops"]))
    return done()


# ---------------------------------------------------------------------------
# C13: symbolic expressions by address
# ---------------------------------------------------------------------------
_SYM = gtirb.Symbol("sym", uuid=UUID(int=99))
KEYS0 = [0, 1, 4, 7, 9]


def _mk_expr(k):
    return gtirb.SymAddrConst(k, _SYM)


def _apply_map_ops(bi, model, ops):
    """model: dict offset -> expr (plain dict, concrete keys)"""
    se = bi.symbolic_expressions
    for op in ops:
        if op == "set":          # new key and overwrite of an existing key
            e5, e1 = _mk_expr(5), _mk_expr(11)
            se[5] = e5
            model[5] = e5
            se[1] = e1
            model[1] = e1
        elif op == "del":
            del se[4]
            del model[4]
        elif op == "pop":
            se.pop(7)
            model.pop(7)
            se.pop(1234, None)
        elif op == "popitem":
            k, _e = se.popitem()
            model.pop(k)
        elif op == "setdefault":
            e2 = _mk_expr(2)
            se.setdefault(2, e2)
            model.setdefault(2, e2)
            e77 = _mk_expr(77)
            se.setdefault(0, e77)
            model.setdefault(0, e77)
        elif op == "update":
            e3, e8 = _mk_expr(3), _mk_expr(8)
            se.update({3: e3, 8: e8})
            model.update({3: e3, 8: e8})
        elif op == "clear":
            se.clear()
            model.clear()
        elif op == "assign":
            e6 = _mk_expr(6)
            bi.symbolic_expressions = {6: e6, 0: model.get(0, e6)}
            keep0 = model.get(0, e6)
            model.clear()
            model[6] = e6
            model[0] = keep0
        elif op == "assign_mapping":
            # the right-hand side is another interval's own mapping object
            src = gtirb.ByteInterval(size=8, uuid=UUID(int=44))
            e2, e8 = _mk_expr(2), _mk_expr(8)
            src.symbolic_expressions[2] = e2
            src.symbolic_expressions[8] = e8
            bi.symbolic_expressions = src.symbolic_expressions
            model.clear()
            model[2] = e2
            model[8] = e8
            e3 = _mk_expr(3)
            bi.symbolic_expressions[3] = e3          # a later edit must be visible to lookups too
            model[3] = e3
        elif op == "del_absent":
            for k in (2, 6, 100, 5):
                if k not in model:
                    try:
                        del se[k]
                        raise AssertionError("deleting an absent offset did not raise")
                    except KeyError:
                        pass
            if 6 not in model:
                try:
                    se.pop(6)
                    raise AssertionError("popping an absent offset did not raise")
                except KeyError:
                    pass
        elif op == "noop":
            pass
        else:
            raise AssertionError(op)


def se_at(ia: Optional[int], v0: int, start: int, stop: int, step: int) -> bool:
    """
    pre: _optv(ia) and _optv(v0)
    pre: _v(start) and _v(stop) and _step(step)
    post: __return__
    """
    with untraced():
        bi = gtirb.ByteInterval(address=None, size=8, uuid=UUID(int=4))
        model = {}
        for k in SHARD.get("keys", KEYS0):
            e = _mk_expr(k)
            bi.symbolic_expressions[k] = e
            model[k] = e
        _apply_map_ops(bi, model, SHARD["ops"])
        keys = sorted(model)
    bi.address = ia
    if SHARD.get("readdr"):
        bi.address = v0
        ia = v0
    q, lo, hi, st = _mkq(start, stop, step)
    if SHARD.get("view", "addr") == "addr":
        name = "symbolic_expressions_at"
        g = list(bi.symbolic_expressions_at(q))
        e = [] if ia is None else [k for k in keys if _at(ia + k, lo, hi, st)]
    else:
        name = "symbolic_expressions_at_offset"
        g = list(bi.symbolic_expressions_at_offset(q))
        e = [k for k in keys if _at(k, lo, hi, st)]
    if len(g) != len(e):
        return fail("%s: wrong number of results" % name)
    for i in range(len(e)):
        t = g[i]
        if not (t[0] is bi and t[1] == e[i] and t[2] is model[e[i]]):
            return fail("%s: wrong triple or order at position %d" % (name, i))
    return done()


def se_huge(which: int) -> bool:
    """
    pre: 0 <= which < 6
    post: __return__
    """
    # ranges with 2**63 and more members (len() of such a range overflows): concrete spot
    w = pick(which, 6)
    with untraced():
        bi = gtirb.ByteInterval(address=5, size=8, uuid=UUID(int=4))
        es = {}
        for k in (0, 3, 7):
            es[k] = _mk_expr(k)
            bi.symbolic_expressions[k] = es[k]
        q = [range(0, 2 ** 64), range(0, 2 ** 63), range(0, 2 ** 64, 2), range(1, 2 ** 63), range(2 ** 63, 2 ** 64), range(6, 2 ** 64, 3)][w]
        why = None
        try:
            got = [(t[1]) for t in bi.symbolic_expressions_at(q)]
            goto = [(t[1]) for t in bi.symbolic_expressions_at_offset(q)]
            if got != [k for k in (0, 3, 7) if (5 + k) in q] or goto != [k for k in (0, 3, 7) if k in q]:
                why = "wrong result for %r" % (q,)
        except Exception as e:  # noqa: BLE001
            why = "%r: %s" % (q, type(e).__name__)
    if why:
        return fail(why)
    return done()


def se_scope(ia: Optional[int], isz: int, ja: Optional[int], start: int, stop: int, step: int) -> bool:
    """
    pre: _optv(ia) and _v(isz) and _optv(ja)
    pre: _v(start) and _v(stop) and _step(step)
    post: __return__
    """
    with untraced():
        ir = gtirb.IR(uuid=UUID(int=1))
        m = gtirb.Module(name="m", ir=ir, uuid=UUID(int=2))
        s = gtirb.Section(name="s", module=m, uuid=UUID(int=3))
        lay = SHARD["layout"]
        s2 = s if lay == 0 else gtirb.Section(name="s2", module=m, uuid=UUID(int=13))
        bi = gtirb.ByteInterval(address=None, size=0, section=s, uuid=UUID(int=4))
        bj = gtirb.ByteInterval(address=None, size=6, section=s2, uuid=UUID(int=14))
        mi, mj = {}, {}
        for k in (0, 2):
            e = _mk_expr(k)
            bi.symbolic_expressions[k] = e
            mi[k] = e
        for k in (1, 9):                # 9 lies beyond bj's extent (size 6)
            e = _mk_expr(k)
            bj.symbolic_expressions[k] = e
            mj[k] = e
    bi.size = isz
    bi.address = ia
    bj.address = ja
    q, lo, hi, st = _mkq(start, stop, step)
    scope = {"section": s, "module": m, "ir": ir}[SHARD["scope"]]
    got = list(scope.symbolic_expressions_at(q))
    must, may = [], []
    for (itv, a, z, mod, vis) in ((bi, ia, isz, mi, True), (bj, ja, 6, mj, not (SHARD["scope"] == "section" and lay == 1))):
        if a is None or not vis:
            continue
        for k in sorted(mod):
            if _at(a + k, lo, hi, st):
                may.append((itv, k, mod[k]))
                # an interval that the range does not intersect at all (hull) may be skipped entirely;
                # inside the declared extent and in an interval 'on' the range it must be reported
                if k < z and _on(a, z, lo, hi):
                    must.append((itv, k, mod[k]))
    for i in range(len(got)):
        for j in range(i):
            if got[i][0] is got[j][0] and got[i][1] == got[j][1]:
                return fail("expression reported twice")
    for (itv, k, e) in must:
        if not any(g[0] is itv and g[1] == k and g[2] is e for g in got):
            return fail("%s.symbolic_expressions_at misses an in-extent expression" % SHARD["scope"])
    for g in got:
        if not any(g[0] is itv and g[1] == k and g[2] is e for (itv, k, e) in may):
            return fail("%s.symbolic_expressions_at reports a triple that no scan selects" % SHARD["scope"])
    return done()
