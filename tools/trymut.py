"""Development aid (not part of any check): apply a one-off textual mutation to /repo's working tree,
run a check on it, and restore the file.  usage: trymut.py <relpath> <old> <new> <PROP> [tier] [--only X]"""
import subprocess
import sys

rel, old, new, prop = sys.argv[1:5]
rest = sys.argv[5:]
path = "/repo/" + rel
src = open(path).read()
assert src.count(old) >= 1, "pattern not found"
if src.count(old) > 1:
    print("warning: %d occurrences, replacing the first" % src.count(old))
try:
    open(path, "w").write(src.replace(old, new, 1))
    p = subprocess.run(["sh", "/verif/tools/check.sh", prop] + (rest or ["quick"]) + ["--no-cover", "--no-evidence"], capture_output=True, text=True)
    lines = [l for l in p.stdout.splitlines() if "CONFIRMED" not in l and not ("[twin" in l and "REFUTED" in l)]
    print("\n".join(lines[-25:])[:6000])
    print("exit", p.returncode)
finally:
    open(path, "w").write(src)
    subprocess.run(["git", "-C", "/repo", "status", "--short"])
