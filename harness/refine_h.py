"""C16 - owning collections behave like the built-in list, set and dict (DESIGN 4, C16).

Differential refinement: the same operation is applied to the gtirb collection and to a built-in
list / set / dict holding the same elements; return value (normalised), resulting contents,
exception *type* and - after success or failure - consistency of the ownership forest are compared.
Documented deviations applied to the model: a node inserted while owned elsewhere is moved (so it
leaves the other owner); a node assigned/inserted into a module list that already holds it is moved
inside the list (membership, uniqueness and relative order of the other elements are judged, not its
exact index - DESIGN 7); popitem/pop of unordered collections may return any element.
"""
import operator
from collections.abc import Set as _AbcSet
from uuid import UUID

from hbase import SHARD, count, done, fail, known, pick, untraced

import gtirb
import forest_h as F

SET_KINDS = ("sections", "symbols", "proxies", "byte_intervals", "blocks")


def outcome(f):
    try:
        return ("ok", f())
    except Exception as e:  # noqa: BLE001
        return ("exc", type(e).__name__)


# ---------------------------------------------------------------------------
# node sets
# ---------------------------------------------------------------------------
def _set_world(kind, mask):
    ir = gtirb.IR(uuid=UUID(int=1))
    m = gtirb.Module(name="m", uuid=UUID(int=2), ir=ir)
    m2 = gtirb.Module(name="m2", uuid=UUID(int=3), ir=ir)
    pool_extra = [ir, m, m2]
    if kind in ("sections", "symbols", "proxies"):
        owner, other = m, m2
        if kind == "sections":
            mk = lambda n: gtirb.Section(name="x%d" % n, uuid=UUID(int=10 + n))
            attr = "module"
        elif kind == "symbols":
            mk = lambda n: gtirb.Symbol("x%d" % n, uuid=UUID(int=10 + n))
            attr = "module"
        else:
            mk = lambda n: gtirb.ProxyBlock(uuid=UUID(int=10 + n))
            attr = "module"
    elif kind == "byte_intervals":
        owner = gtirb.Section(name="s", uuid=UUID(int=4), module=m)
        other = gtirb.Section(name="o", uuid=UUID(int=5), module=m2)
        pool_extra += [owner, other]
        mk = lambda n: gtirb.ByteInterval(size=2, address=n, uuid=UUID(int=10 + n))
        attr = "section"
    else:
        s = gtirb.Section(name="s", uuid=UUID(int=4), module=m)
        owner = gtirb.ByteInterval(size=8, uuid=UUID(int=6), section=s)
        other = gtirb.ByteInterval(size=8, uuid=UUID(int=7), section=s)
        pool_extra += [s, owner, other]
        mk = lambda n: (gtirb.CodeBlock if n % 2 == 0 else gtirb.DataBlock)(size=1, offset=n, uuid=UUID(int=10 + n))
        attr = "byte_interval"
    X = [mk(n) for n in range(4)]
    setattr(X[2], attr, other)
    for i in range(2):
        if mask >> i & 1:
            getattr(owner, kind).add(X[i])
    return owner, other, X, attr, pool_extra + X


def _mk_set_ops():
    OPS = []
    for nm in ("add", "discard", "remove"):
        for i in range(4):
            OPS.append(("%s(x%d)" % (nm, i), (lambda nm, i: lambda c, X: getattr(c, nm)(X[i]))(nm, i), True))
    OPS.append(("pop()", lambda c, X: c.pop(), True))
    OPS.append(("clear()", lambda c, X: c.clear(), True))
    OPS.append(("update([x0],[x3])", lambda c, X: c.update([X[0]], [X[3]]), True))
    OPS.append(("update()", lambda c, X: c.update(), True))
    OPS.append(("len", lambda c, X: len(c), False))
    OPS.append(("iter", lambda c, X: set(iter(c)), False))
    for i in range(4):
        OPS.append(("x%d in" % i, (lambda i: lambda c, X: X[i] in c)(i), False))
    OPS.append(("7 in", lambda c, X: 7 in c, False))
    for t in ((), (0,), (1, 2), (0, 3), (0, 1, 2, 3)):
        S = (lambda t: lambda X: {X[i] for i in t})(t)
        tn = "{%s}" % ",".join("x%d" % i for i in t)
        OPS.append(("update(%s)" % tn, (lambda S: lambda c, X: c.update(list(S(X))))(S), True))
        for sym, fn in (("|", operator.or_), ("&", operator.and_), ("-", operator.sub), ("^", operator.xor), ("==", operator.eq),
                        ("!=", operator.ne), ("<=", operator.le), ("<", operator.lt), (">=", operator.ge), (">", operator.gt)):
            OPS.append(("c%s%s" % (sym, tn), (lambda S, fn: lambda c, X: fn(c, S(X)))(S, fn), False))
            OPS.append(("%s%sc" % (tn, sym), (lambda S, fn: lambda c, X: fn(S(X), c))(S, fn), False))
        OPS.append(("isdisjoint(%s)" % tn, (lambda S: lambda c, X: c.isdisjoint(S(X)))(S), False))
        for sym, fn in (("|=", operator.ior), ("&=", operator.iand), ("-=", operator.isub), ("^=", operator.ixor)):
            OPS.append(("c%s%s" % (sym, tn), (lambda S, fn: lambda c, X: (fn(c, S(X)), None)[1])(S, fn), True))
    return OPS


SET_OPS = _mk_set_ops()


def run_set(kind, mask, opi):
    owner, other, X, attr, pool = _set_world(kind, mask)
    coll = getattr(owner, kind)
    ocoll = getattr(other, kind)
    model = {X[i] for i in range(2) if mask >> i & 1}
    name, op, mutating = SET_OPS[opi % len(SET_OPS)]

    def idx(x):
        for i, q in enumerate(X):
            if q is x:
                return "x%d" % i
        return repr(x)

    def norm(r):
        if r[0] != "ok":
            return r
        v = r[1]
        if isinstance(v, _AbcSet) and not isinstance(v, gtirb.util.SetWrapper):
            # a plain value (set; under the solver the insertion-ordered stand-in for set), not an owning wrapper
            return ("ok", "plain set", sorted(idx(x) for x in v))
        if hasattr(v, "__iter__") and not isinstance(v, (str, bytes)):
            return ("ok", type(v).__name__, sorted(idx(x) for x in v))
        return ("ok", v if isinstance(v, (bool, int, type(None))) else idx(v))

    ri = outcome(lambda: op(coll, X))
    if name == "pop()" and ri[0] == "ok":
        # any element may be popped
        if not any(ri[1] is q for q in model):
            return "pop() returned a non-member", name
        model.discard(ri[1])
        ri = rm = ("ok", "elem")
    else:
        ri = norm(ri)
        rm = norm(outcome(lambda: op(model, X)))
    if ri != rm:
        return "result %r, built-in set gives %r" % (ri, rm), name
    got = sorted(idx(x) for x in coll)
    exp = sorted(idx(x) for x in model)
    if got != exp:
        return "contents %r, built-in set gives %r" % (got, exp), name
    if len(coll) != len(model):
        return "len", name
    # ownership: members owned by owner; x2 stays with `other` unless it was moved; nothing else changed hands
    for i in range(4):
        par = getattr(X[i], attr)
        want = owner if ("x%d" % i) in got else (other if i == 2 else None)
        if par is not want:
            return "x%d.%s is %s, expected %s" % (i, attr, F._nm(par), F._nm(want)), name
    if any(X[2] is z for z in ocoll) != ("x2" not in got):
        return "other owner's collection out of step", name
    why = F.check_forest(pool) or F.check_cache(pool, [pool[0]])
    if why:
        return "after %s: %s" % (ri[0], why), name
    return None, name


# ---------------------------------------------------------------------------
# ir.modules
# ---------------------------------------------------------------------------
import itertools as _it

ARRANGEMENTS = [()] + [p for n in (1, 2, 3) for p in _it.permutations(range(3), n)]
IDX = (-4, -3, -2, -1, 0, 1, 2, 3, 4)
SLICES = [(None, None, None), (0, 1, None), (1, None, None), (1, 3, None), (None, None, 2), (None, None, -1), (1, 1, None), (5, None, None), (-2, None, None), (2, 0, -1)]
VALSETS = [(), (3,), (4,), (0,), (1, 0), (3, 4), (4, 4), (0, 1, 2), (2, 3)]


def _mk_list_ops():
    OPS = []

    def op(name, f, inserted=()):
        OPS.append((name, f, inserted))

    for i in IDX:
        op("[%d]" % i, lambda L, X, i=i: L[i])
        op("del[%d]" % i, lambda L, X, i=i: L.__delitem__(i))
        op("pop(%d)" % i, lambda L, X, i=i: L.pop(i))
        for j in range(5):
            op("[%d]=x%d" % (i, j), lambda L, X, i=i, j=j: L.__setitem__(i, X[j]), (j,))
            op("insert(%d,x%d)" % (i, j), lambda L, X, i=i, j=j: L.insert(i, X[j]), (j,))
    for j in range(5):
        op("append(x%d)" % j, lambda L, X, j=j: L.append(X[j]), (j,))
        op("remove(x%d)" % j, lambda L, X, j=j: L.remove(X[j]))
        op("index(x%d)" % j, lambda L, X, j=j: L.index(X[j]))
        for (st, en) in ((0, 0), (0, 1), (1, 0), (1, 3), (-1, 5), (0, -1), (2, 2), (-3, 0)):
            op("index(x%d,%d,%d)" % (j, st, en), lambda L, X, j=j, st=st, en=en: L.index(X[j], st, en))
        op("index(x%d,1)" % j, lambda L, X, j=j: L.index(X[j], 1))
        op("count(x%d)" % j, lambda L, X, j=j: L.count(X[j]))
        op("x%d in" % j, lambda L, X, j=j: X[j] in L)
    op("pop()", lambda L, X: L.pop())
    op("reverse()", lambda L, X: L.reverse())
    op("clear()", lambda L, X: L.clear())
    op("len", lambda L, X: len(L))
    op("iter", lambda L, X: list(iter(L)))
    op("reversed", lambda L, X: list(reversed(L)))
    for sl in SLICES:
        op("[%s:%s:%s]" % sl, lambda L, X, sl=sl: L[slice(*sl)])
        op("del[%s:%s:%s]" % sl, lambda L, X, sl=sl: L.__delitem__(slice(*sl)))
        for vs in VALSETS:
            op("[%s:%s:%s]=%s" % (sl + (list(vs),)), lambda L, X, sl=sl, vs=vs: L.__setitem__(slice(*sl), [X[j] for j in vs]), vs)
    for vs in VALSETS:
        op("extend(%s)" % (list(vs),), lambda L, X, vs=vs: L.extend([X[j] for j in vs]), vs)
        op("+=%s" % (list(vs),), lambda L, X, vs=vs: (operator.iadd(L, [X[j] for j in vs]), None)[1], vs)
    return OPS


LIST_OPS = _mk_list_ops()


def run_list(arr_i, opi):
    arr = ARRANGEMENTS[arr_i % len(ARRANGEMENTS)]
    ir = gtirb.IR(uuid=UUID(int=1))
    ir2 = gtirb.IR(uuid=UUID(int=2))
    X = [gtirb.Module(name="x%d" % n, uuid=UUID(int=10 + n)) for n in range(5)]
    gtirb.Section(name="s", uuid=UUID(int=20), module=X[0])     # a descendant, so cache recursion is visible
    for j in arr:
        ir.modules.append(X[j])
    X[3].ir = ir2
    pool = [ir, ir2] + X + list(X[0].sections)
    model = [X[j] for j in arr]
    name, op, inserted = LIST_OPS[opi % len(LIST_OPS)]

    def idx(x):
        for i, q in enumerate(X):
            if q is x:
                return "x%d" % i
        return repr(x)

    def norm(r):
        if r[0] != "ok":
            return r
        v = r[1]
        if isinstance(v, list):
            return ("ok", "list", [idx(x) for x in v])
        return ("ok", v if isinstance(v, (bool, int, type(None))) else idx(v))

    already = [j for j in inserted if any(X[j] is q for q in model)]
    dup_args = len(set(inserted)) != len(inserted)
    ri = norm(outcome(lambda: op(ir.modules, X)))
    rm = norm(outcome(lambda: op(model, X)))
    got = [idx(x) for x in ir.modules]
    why = F.check_forest(pool) or F.check_cache(pool, [ir, ir2])
    if why:
        return "after %s: %s" % (ri[0], why), name
    if ri[0] != rm[0] or (ri[0] == "exc" and ri != rm):
        return "result %r, built-in list gives %r" % (ri, rm), name
    if not (already or dup_args) or rm[0] == "exc":
        if ri != rm:
            return "result %r, built-in list gives %r" % (ri, rm), name
        exp = [idx(x) for x in model]
        if got != exp:
            return "contents %r, built-in list gives %r" % (got, exp), name
    else:
        # the operation inserts a module the list already holds (or the same module twice): moved, not duplicated
        exp_set = sorted(set(idx(x) for x in model))
        if sorted(got) != exp_set:
            return "contents %r, expected the elements %r once each" % (got, exp_set), name
        ins = set("x%d" % j for j in inserted)
        rest_got = [g for g in got if g not in ins]
        rest_exp = []
        for x in model:
            n = idx(x)
            if n not in ins and n not in rest_exp:
                rest_exp.append(n)
        if rest_got != rest_exp:
            return "relative order of the untouched elements changed: %r vs %r" % (rest_got, rest_exp), name
    # ownership follows membership; x3 leaves ir2 iff it was inserted
    for i in range(5):
        want = ir if ("x%d" % i) in got else (ir2 if i == 3 else None)
        if X[i].ir is not want:
            return "x%d.ir is %s, expected %s" % (i, F._nm(X[i].ir), F._nm(want)), name
    return None, name


# ---------------------------------------------------------------------------
# symbolic_expressions
# ---------------------------------------------------------------------------
_SYM = gtirb.Symbol("s", uuid=UUID(int=99))
KEYPOOL = (0, 3, 7)


def _mk_map_ops():
    OPS = []

    def op(name, f):
        OPS.append((name, f))

    for k in KEYPOOL + (5,):
        op("[%d]" % k, lambda M, E, k=k: M[k])
        op("[%d]=e" % k, lambda M, E, k=k: M.__setitem__(k, E[k]))
        op("del[%d]" % k, lambda M, E, k=k: M.__delitem__(k))
        op("pop(%d)" % k, lambda M, E, k=k: M.pop(k))
        op("pop(%d,None)" % k, lambda M, E, k=k: M.pop(k, None))
        op("setdefault(%d,e)" % k, lambda M, E, k=k: M.setdefault(k, E[k]))
        op("get(%d)" % k, lambda M, E, k=k: M.get(k))
        op("get(%d,1)" % k, lambda M, E, k=k: M.get(k, 1))
        op("%d in" % k, lambda M, E, k=k: k in M)
    op("popitem()", lambda M, E: M.popitem())
    op("clear()", lambda M, E: M.clear())
    op("len", lambda M, E: len(M))
    op("keys", lambda M, E: sorted(M.keys()))
    op("values", lambda M, E: sorted(M.values(), key=id))
    op("items", lambda M, E: sorted(M.items(), key=lambda kv: kv[0]))
    op("iter", lambda M, E: list(M))
    op("update({5,0})", lambda M, E: M.update({5: E[5], 0: E[0]}))
    op("update([(3,e)])", lambda M, E: M.update([(3, E[3])]))
    op("update()", lambda M, E: M.update())
    op("=={}", lambda M, E: M == {})
    op("==same", lambda M, E: M == dict(M.items()))
    op("!=other", lambda M, E: M != {1: E[0]})
    return OPS


MAP_OPS = _mk_map_ops()


def run_map(mask, opi):
    bi = gtirb.ByteInterval(size=8, uuid=UUID(int=4))
    E0 = {k: gtirb.SymAddrConst(k, _SYM) for k in KEYPOOL + (5,)}     # values initially stored
    E = {k: gtirb.SymAddrConst(100 + k, _SYM) for k in KEYPOOL + (5,)}  # values used by operations
    model = {}
    for i, k in enumerate(KEYPOOL):
        if mask >> i & 1:
            bi.symbolic_expressions[k] = E0[k]
            model[k] = E0[k]
    M = bi.symbolic_expressions
    name, op = MAP_OPS[opi % len(MAP_OPS)]

    def norm(r):
        if r[0] != "ok":
            return r
        v = r[1]

        def one(x):
            for d, tag in ((E0, "e0_"), (E, "e_")):
                for k, e in d.items():
                    if e is x:
                        return tag + str(k)
            return x

        if isinstance(v, list):
            return ("ok", [tuple(one(y) for y in x) if isinstance(x, tuple) else one(x) for x in v])
        if isinstance(v, tuple):
            return ("ok", tuple(one(y) for y in v))
        return ("ok", one(v))

    ri = outcome(lambda: op(M, E))
    if name == "popitem()" and ri[0] == "ok":
        k, e = ri[1]
        if k not in model or model[k] is not e:
            return "popitem() returned a pair that was not stored", name
        del model[k]
        ri = rm = ("ok", "pair")
    elif name == "iter":
        ri = norm(ri)
        rm = ("ok", sorted(model))          # symbolic expressions iterate by offset
    else:
        ri = norm(ri)
        rm = norm(outcome(lambda: op(model, E)))
    if ri != rm:
        return "result %r, built-in dict gives %r" % (ri, rm), name
    if list(M.keys()) != sorted(model.keys()):
        return "keys %r, built-in dict gives %r" % (list(M.keys()), sorted(model)), name
    for k in model:
        if M[k] is not model[k]:
            return "value at %d" % k, name
    if len(M) != len(model):
        return "len", name
    if bi.symbolic_expressions is not M:
        return "mapping object replaced", name
    return None, name


# ---------------------------------------------------------------------------
def _mutating_set_ops():
    return [i for i, (_n, _f, mut) in enumerate(SET_OPS) if mut]


def refine2(a: int, op1: int, op2: int) -> bool:
    """
    pre: 0 <= a < SHARD["na"]
    pre: 0 <= op1 < SHARD["nops1"] and 0 <= op2 < SHARD["nops"]
    post: __return__
    """
    # K = 2 on a node set: a mutating operation, then any operation, each compared with the built-in set
    coll = SHARD["coll"]
    x = pick(a, SHARD["na"])
    mut = _mutating_set_ops()
    o1 = mut[SHARD["op_lo"] + pick(op1, SHARD["nops1"])]
    o2 = pick(op2, SHARD["nops"])
    with untraced():
        why, name = run_set2(coll, x, o1, o2)
    if why is not None:
        return fail("%s pre-state %s, %s: %s" % (coll, x, name, why))
    count("scenarios")
    return done()


def run_set2(kind, mask, o1, o2):
    """two operations in sequence; the model set carries over"""
    owner, other, X, attr, pool = _set_world(kind, mask)
    coll = getattr(owner, kind)
    model = {X[i] for i in range(2) if mask >> i & 1}
    names = []
    for opi in (o1, o2):
        name, op, _m = SET_OPS[opi]
        names.append(name)
        ri = outcome(lambda: op(coll, X))
        if name == "pop()" and ri[0] == "ok":
            if not any(ri[1] is q for q in model):
                return "pop() returned a non-member", ";".join(names)
            model.discard(ri[1])
        else:
            rm = outcome(lambda: op(model, X))
            if ri[0] != rm[0] or (ri[0] == "exc" and ri[1] != rm[1]):
                return "outcome %r, built-in set gives %r" % (ri[:1] + (ri[1] if ri[0] == "exc" else "",), rm[:1]), ";".join(names)
            if ri[0] == "ok" and isinstance(rm[1], (bool, int)) and ri[1] != rm[1]:
                return "result %r, built-in set gives %r" % (ri[1], rm[1]), ";".join(names)
        got = sorted(id(x) for x in coll)
        exp = sorted(id(x) for x in model)
        if got != exp:
            return "contents differ from the built-in set after %s" % name, ";".join(names)
        for i in range(4):
            par = getattr(X[i], attr)
            member = any(X[i] is z for z in coll)
            if member != (par is owner):
                return "x%d ownership out of step" % i, ";".join(names)
        why = F.check_forest(pool) or F.check_cache(pool, [pool[0]])
        if why:
            return why, ";".join(names)
    return None, ";".join(names)


def signature(coll, name, why):
    kind = name
    for ch in "0123456789":
        kind = kind.replace(ch, "#")
    cls = "result" if why.startswith("result") else ("contents" if why.startswith("contents") else "state")
    return "%s|%s|%s" % (coll, kind, cls)


def refine(a: int, op: int) -> bool:
    """
    pre: 0 <= a < SHARD["na"]
    pre: 0 <= op < SHARD["nops"]
    post: __return__
    """
    coll = SHARD["coll"]
    lo = SHARD.get("op_lo", 0)
    x = pick(a, SHARD["na"])
    o = lo + pick(op, SHARD["nops"])
    with untraced():
        if coll == "modules":
            why, name = run_list(x, o)
        elif coll == "symbolic_expressions":
            why, name = run_map(x, o)
        else:
            why, name = run_set(coll, x, o)
        if why is not None and known("C16", signature(coll, name, why), "%s pre=%s: %s" % (name, x, why)):
            why = None
    if why is not None:
        return fail("%s pre-state %s, %s: %s" % (coll, x, name, why))
    count("scenarios")
    return done()
