"""C16 - owning collections behave like the built-in list, set and dict (DESIGN 4, C16)."""
from refine_h import *  # noqa: F401,F403
import refine_h as R
import c03 as _c03

ASSUMPTIONS = _c03.ASSUMPTIONS[:2] + [
    "documented deviations applied to the model: insertion of a node owned elsewhere moves it; a module assigned/inserted into a list that already holds it "
    "is moved inside the list (membership, uniqueness and relative order of the other elements judged, not its exact index); pop/popitem of unordered "
    "collections may return any element; symbolic_expressions iterate by offset",
]
OUTSIDE = "pools larger than 4 (sets), 5 (modules), 4 keys (mapping); sequences of two operations beyond the thorough tier"
BOUNDS = {
    "quick": "five node sets x 4 pre-states x %d operations (full MutableSet interface incl. reflected binary operators and comparisons with plain sets, update with 0/1/2 iterables); "
             "ir.modules x 16 arrangements x %d operations (indices -4..4, 10 slice shapes x 9 value lists, insert/append/extend/+=/pop/remove/reverse/clear/index/count); "
             "symbolic_expressions x 8 pre-states x %d operations; K = 1" % (len(R.SET_OPS), len(R.LIST_OPS), len(R.MAP_OPS)),
    "thorough": "as quick (K = 1 is exhaustive over the stated pools); plus K = 2 on the node sets",
}


def shards(tier):
    out = []
    for kind in R.SET_KINDS:
        n = len(R.SET_OPS)
        for lo in range(0, n, 40):
            out.append({"fn": "refine", "consts": {"coll": kind, "na": 4, "op_lo": lo, "nops": min(40, n - lo)}, "timeout": 900, "twin": "first", "cover": "first"})
    n = len(R.LIST_OPS)
    for lo in range(0, n, 24):
        out.append({"fn": "refine", "consts": {"coll": "modules", "na": len(R.ARRANGEMENTS), "op_lo": lo, "nops": min(24, n - lo)}, "timeout": 900, "twin": "first", "cover": "first"})
    out.append({"fn": "refine", "consts": {"coll": "symbolic_expressions", "na": 8, "op_lo": 0, "nops": len(R.MAP_OPS)}, "timeout": 900})
    if tier != "quick":
        nm = len(R._mutating_set_ops())
        for kind in R.SET_KINDS:
            for lo in range(0, nm, 4):
                out.append({"fn": "refine2", "consts": {"coll": kind, "na": 4, "op_lo": lo, "nops1": min(4, nm - lo), "nops": len(R.SET_OPS)},
                            "timeout": 1800, "twin": "first", "cover": False})
    return out
