"""Development aid: markdown table of the seeded changes from seeded/*/meta.json (pasted into DESIGN.md 10.7)."""
import glob
import json
import os

rows = []
for f in sorted(glob.glob(os.path.join(os.path.dirname(os.path.dirname(os.path.abspath(__file__))), "seeded", "*", "meta.json"))):
    m = json.load(open(f))
    first = " ".join(l.strip() for l in m.get("needs_to_manifest", "").splitlines() if l.strip() and not l.startswith("#"))[:230]
    det = ", ".join("%s %s" % (r["cmd"].split("check.sh ")[1].split()[0], ("quick" if " quick" in r["cmd"] else "thorough") + ((" (--only " + r["cmd"].split("--only ")[1] + ")") if "--only " in r["cmd"] else "")) for r in m.get("ran", []) if r["exit"] == 1) or "-"
    before = [r for r in m.get("earlier_runs", [])]
    missed_before = sorted({r["cmd"].split("check.sh ")[1].split()[0] for r in before if r["exit"] != 1})
    rows.append("| %s | %s | %s | %s |" % (m["name"], first.replace("|", "/"), det, ("missed at first by " + ", ".join(missed_before)) if missed_before else ""))
print("| seeded change | what it is / what it needs | caught by | history |")
print("|---|---|---|---|")
print("\n".join(rows))
